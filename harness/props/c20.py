"""C20 — literal includes show exactly the requested part of the file.

A case is a tiny project: a page (possibly in nested directories) holding one `literalinclude`
or one `io-code-block` with `input`/`output` file arguments, plus the files under source/.
run_impl writes the project into a fresh temp dir, runs the REAL parser, and returns the `code`
node fields, the diagnostics (class + line) and the recorded dependencies."""
import copy
import hashlib
import json
import os
import posixpath
import re
import shutil
import tempfile
from pathlib import Path

import core
from snooty import n, rstparser
from snooty.n import FileId
from snooty.parser import JSONVisitor, parse_rst
from snooty.types import ProjectConfig

DIRNAMES = ("literalinclude", "input", "output")
RELEVANT = ("ExpectedPathArg", "CannotOpenFile", "InvalidLiteralInclude", "AmbiguousLiteralInclude")
OPT_ORDER = ["language", "start-after", "end-before", "dedent", "emphasize-lines", "linenos",
             "lineno-start", "caption", "copyable", "source", "visible"]


# --------------------------------------------------------------------------------------
# rendering a case to rst + files
# --------------------------------------------------------------------------------------

def opt_lines(opts, indent):
    out = []
    for k in OPT_ORDER:
        if k not in opts:
            continue
        v = opts[k]
        if v is True and k in ("dedent", "linenos"):
            out.append(f"{indent}:{k}:")
        elif isinstance(v, bool):
            out.append(f"{indent}:{k}: {'true' if v else 'false'}")
        elif v == "" and k == "copyable":
            out.append(f"{indent}:{k}:")
        else:
            out.append(f"{indent}:{k}: {v}")
    return out


def render(case):
    """returns (rst text, [0-based line of each directive in case['dirs']])"""
    lines, dlines = ["Title", "=====", ""], []
    if case["kind"] == "io":
        lines.append(".. io-code-block::")
        lines += opt_lines(case.get("parent") or {}, "   ")
        lines.append("")
        for d in case["dirs"]:
            dlines.append(len(lines))
            lines.append(f"   .. {d['name']}::" + (f" {d['arg']}" if d.get("arg") is not None else ""))
            lines += opt_lines(d["opts"], "      ")
            lines.append("")
            if d.get("arg") is None:
                lines += ["      raw content", ""]
    else:
        for d in case["dirs"]:
            dlines.append(len(lines))
            lines.append(f".. {d['name']}::" + (f" {d['arg']}" if d.get("arg") is not None else ""))
            lines += opt_lines(d["opts"], "   ")
            lines.append("")
    return "\n".join(lines) + "\n", dlines


def file_bytes(f):
    if "hex" in f:
        return bytes.fromhex(f["hex"])
    return f["text"].encode("utf-8")


def resolve(case, arg):
    """the file id an argument names: absolute = from the source root, else relative to the page"""
    if arg.startswith("/"):
        return posixpath.normpath(arg).lstrip("/")
    return posixpath.normpath(posixpath.join(posixpath.dirname(case["page"]), arg))


def file_state(case, d):
    """('text', str) | ('undecodable', bytes) | ('oserror', None) for directive d (independent of snooty)"""
    fid = resolve(case, d["arg"])
    for f in case["files"]:
        if f["path"] == fid:
            if f.get("dir"):
                return fid, "oserror", None
            data = file_bytes(f)
            try:
                return fid, "text", data.decode("utf-8")
            except UnicodeDecodeError:
                return fid, "undecodable", data
    return fid, "oserror", None


# --------------------------------------------------------------------------------------
# independent recomputation used by the oracle (no regex, no snooty code)
# --------------------------------------------------------------------------------------

def is_word(c):
    return c.isalnum() or c == "_"


def carries(line, marker):
    """the marker occurs in the line surrounded only by non-word characters"""
    pos = line.find(marker)
    while pos >= 0:
        if not any(is_word(c) for c in line[:pos]) and not any(is_word(c) for c in line[pos + len(marker):]):
            return True
        pos = line.find(marker, pos + 1)
    return False


def first_carrying(lines, marker):
    for i, l in enumerate(lines):
        if carries(l, marker):
            return i
    return None


def lead_ws(l):
    k = 0
    while k < len(l) and l[k].isspace():
        k += 1
    return k


SIMPLE_TERM = re.compile(r"^[ \t]*([0-9]+)[ \t]*(?:-[ \t]*([0-9]+)[ \t]*)?$")


def simple_emphasis(spec):
    """[(lo, hi)] for a plain 'a,b-c' specification, None if the spec is anything else"""
    out = []
    for t in spec.split(","):
        m = SIMPLE_TERM.match(t)
        if not m:
            return None
        lo = int(m.group(1))
        out.append((lo, int(m.group(2)) if m.group(2) is not None else lo))
    return out


class C20(core.PropertyCheck):
    id = "C20"
    quick_budget = 6000
    thorough_budget = 60000
    rule = ("random: text files of 0-60 lines (mixed indentation incl. tabs / NBSP / form feed, blank lines, marker word inside longer "
            "text, near-miss marker lines, Unicode, with/without trailing newline, CRLF) x markers in 9 comment syntaxes at any pair of "
            "positions (missing, duplicated, reversed, adjacent, first/last) x dedent absent/flag/0-12 x emphasize-lines inside/outside/"
            "at the file-length boundary/malformed x linenos, lineno-start, language, caption, copyable x absolute and relative paths "
            "from nested pages with decoy files x missing / directory / non-UTF-8 files; as literalinclude and as io-code-block "
            "input/output; exhaustive: every (start,end) position pair in files of <=5 lines for each option subset. "
            "non-trivial = readable file with at least one marker option or dedent; distinct by case content")
    assumptions = [
        "Python's \\w (re) and str.isspace are parameters isWord / isSpace of the model; the driver's ASCII tables are compared with the running Python on every run, non-ASCII characters of a case are classified by Python and passed in",
        "int() is modelled for ASCII digits, sign, underscores and surrounding whitespace; generators do not emit non-ASCII decimal digits",
        "UTF-8 decoding and blake2b are not modelled: the harness classifies the bytes (decodable or not) with bytes.decode and recomputes the hash with hashlib",
        "file length means len(text.split('\\n')) (a trailing newline contributes a final empty line), as the included text itself has that many lines",
        "option values reach the handler as written (checked on every case: the options the directive node carries are compared with the case)",
    ]

    # ---- hypotheses -------------------------------------------------------------------
    def static_obligations(self):
        out = []
        try:
            r = core.run_driver([{"op": "c20.ascii"}])[0]
            w_py = [cp for cp in range(128) if re.fullmatch(r"\w", chr(cp))]
            s_py = [cp for cp in range(128) if chr(cp).isspace()]
            out.append(("driver table asciiWord == re \\w on all ASCII code points", r.get("word") == w_py, str(r.get("word"))[:80]))
            out.append(("driver table asciiSpace == str.isspace on all ASCII code points", r.get("space") == s_py, str(r.get("space"))[:80]))
            # the model of the code *before* the fix reproduces the crash of the corpus witnesses (orig_total_refuted)
            w = core.run_driver([{"op": "c20.orig", "text": "// E\nx\n", "end-before": "E"},
                                 {"op": "c20.orig", "text": "x\n// S", "start-after": "S"},
                                 {"op": "c20.orig", "text": "x\n// S\n", "start-after": "S"}])
            out.append(("model of the unfixed handler raises UnboundLocalError exactly on the two corpus witnesses",
                        [x.get("exc") for x in w] == ["UnboundLocalError", "UnboundLocalError", None], str(w)[:120]))
        except core.Infra as e:
            out.append(("driver ascii tables", False, str(e)))
        bad = [cp for cp in range(0x110000) if not (0xD800 <= cp <= 0xDFFF)
               and bool(re.fullmatch(r"\w", chr(cp))) != (chr(cp).isalnum() or chr(cp) == "_")]
        out.append(("re \\w == isalnum-or-underscore on all code points (oracle's independent marker recogniser)", not bad, str(bad[:5])))
        nl = [cp for cp in range(0x110000) if not (0xD800 <= cp <= 0xDFFF) and cp != 10 and "\n" in chr(cp)]
        out.append(("only U+000A splits lines", not nl, ""))
        return out

    # ---- generation -------------------------------------------------------------------
    MARKERS = [("start-tag", "end-tag"), ("begin", "end"), ("START", "END"), ("snippet one", "snippet two"),
               ("mark", "mark"), ("a.b(c)*", "[x]+$"), ("début", "fin"), ("// open", "// close"), ("s", "e")]
    COMMENTS = ["// {}", "# {}", "/* {} */", "<!-- {} -->", "-- {}", "    // {}  ", "{}", "//{}", "\t#\t{}", ";;; {} ;;;", "— {} —", "// {}\r"]
    NEAR = ["// {} x", "x // {}", "// {}2", "_{}", "é{}", "{}_", "// {} 日", "print('{}')+1"]
    INDENTS = ["", "", " ", "  ", "    ", "\t", "\t\t", "  \t", "        ", "  ", "\x0c ", "            ", "      "]
    BODIES = ["x = 1", "def f():", "return x", "}", "{", "s = \"héllo 世界\"", "# comment", "a", "\U0001f600 = 2",
              "if (x) {", "print(1)", "z"]

    def gen_file(self, rng, nlines, s, e, crlf):
        lines = []
        for _ in range(nlines):
            r = rng.random()
            if r < 0.12:
                lines.append("")
            elif r < 0.2:
                lines.append(rng.choice([" ", "  ", "\t", "    ", " \t "]))
            elif r < 0.3:
                lines.append(rng.choice(self.INDENTS) + rng.choice(self.NEAR).format(rng.choice([s, e])))
            else:
                lines.append(rng.choice(self.INDENTS) + rng.choice(self.BODIES))
        return lines

    def gen_dir(self, rng, name, page, files, small):
        s, e = rng.choice(self.MARKERS)
        crlf = rng.random() < 0.08
        nlines = rng.choice([0, 1, 2, 3, 4, 5, 6, 8]) if small else rng.randint(0, 60)
        lines = self.gen_file(rng, nlines, s, e, crlf)
        # marker placement: any pair of positions, duplicates, missing
        def place(marker, count):
            for _ in range(count):
                pos = rng.randint(0, len(lines)) if lines else 0
                txt = rng.choice(self.COMMENTS).format(marker)
                mode = rng.random()
                if lines and mode < 0.5:
                    lines[min(pos, len(lines) - 1)] = txt
                else:
                    lines.insert(pos, txt)
        ns = rng.choice([1, 1, 1, 1, 0, 2])
        ne = rng.choice([1, 1, 1, 1, 0, 2])
        order = rng.random()
        if order < 0.5:
            place(s, ns); place(e, ne)
        else:
            place(e, ne); place(s, ns)
        if rng.random() < 0.1 and lines:   # markers on first / last line
            lines[0] = "// " + s
            lines[-1] = "// " + e
        if rng.random() < 0.06 and len(lines) >= 2:   # adjacent
            k = rng.randint(0, len(lines) - 2)
            lines[k], lines[k + 1] = "# " + s, "# " + e
        sep = "\r\n" if crlf else "\n"
        text = sep.join(lines) + (sep if rng.random() < 0.6 else "")
        nfile = len(text.split("\n"))
        opts = {}
        if rng.random() < 0.75:
            opts["start-after"] = s
        if rng.random() < 0.75:
            opts["end-before"] = e
        r = rng.random()
        if r < 0.3:
            opts["dedent"] = True
        elif r < 0.6:
            opts["dedent"] = rng.randint(0, 12)
        r = rng.random()
        if r < 0.5:
            def num():
                return rng.choice([0, 1, 2, nfile - 1, nfile, nfile + 1, rng.randint(0, nfile + 2), max(0, nfile // 2)])
            terms = []
            for _ in range(rng.randint(1, 3)):
                a = max(0, num())
                if rng.random() < 0.4:
                    b = max(0, num())
                    if rng.random() < 0.85 and b < a:
                        a, b = b, a
                    terms.append(f"{a}-{b}")
                else:
                    terms.append(str(a))
            spec = ",".join(terms)
            if rng.random() < 0.1:
                spec = spec.replace(",", " , ").replace("-", " - ")
            opts["emphasize-lines"] = spec
        elif r < 0.58:
            opts["emphasize-lines"] = rng.choice(["a", "1-", "3-1", "1,,2", "+2", "1_0", "1__0", "1,-1", "2--3", "x-1", "1;2", "0x1", "1.5", "1-2-3", "²", "_1", "1_"])
        if rng.random() < 0.3:
            opts["linenos"] = True
        if rng.random() < 0.3:
            opts["lineno-start"] = rng.choice([0, 1, 5, 100])
        if rng.random() < 0.5:
            opts["language"] = rng.choice(["python", "js", "c++", "none", "Sh ell"])
        if name == "literalinclude":
            if rng.random() < 0.3:
                opts["caption"] = rng.choice(["A caption", "café *x*", "c"])
            r = rng.random()
            if r < 0.15:
                opts["copyable"] = True
            elif r < 0.3:
                opts["copyable"] = False
            elif r < 0.35:
                opts["copyable"] = ""
        # target file + how it is named
        base = rng.choice(["code.py", "sample.js", "f.txt"])
        target = posixpath.join(rng.choice(["inc", "includes/deep", posixpath.dirname(page) or "top", ""]), base)
        r = rng.random()
        if r < 0.05:
            pass                                             # missing file
        elif r < 0.09:
            files.append({"path": target, "dir": True})
        elif r < 0.14:
            bad = rng.choice(["ff", "c3", "e282", "80", "f8888080"])
            pre = text.encode("utf-8")
            k = rng.randint(0, len(pre))
            while k < len(pre) and (pre[k] & 0xC0) == 0x80:
                k += 1
            files.append({"path": target, "hex": (pre[:k] + bytes.fromhex(bad) + b"\n" + pre[k:]).hex()})
        else:
            files.append({"path": target, "text": text})
        # decoys with the same base name elsewhere
        for decoy in sorted({posixpath.join(posixpath.dirname(page), base), base, posixpath.join("inc", base)}):
            if decoy != target and all(f["path"] != decoy for f in files) and rng.random() < 0.5:
                files.append({"path": decoy, "text": "DECOY\n// " + s + "\ndecoy line\n// " + e + "\n"})
        if rng.random() < 0.5:
            arg = "/" + target
        else:
            arg = posixpath.relpath(target, posixpath.dirname(page) or ".")
            if rng.random() < 0.3 and not arg.startswith("."):
                arg = "./" + arg
        return {"name": name, "arg": arg, "opts": opts}

    def gen_case(self, rng, small=False):
        page = rng.choice(["index.txt", "page.txt", "dir/page.txt", "a/b/c/page.rst", "tutorial/install.txt"])
        files = []
        if rng.random() < 0.7:
            case = {"kind": "lit", "page": page, "files": files, "dirs": [self.gen_dir(rng, "literalinclude", page, files, small)]}
        else:
            parent = {}
            if rng.random() < 0.5:
                parent["copyable"] = rng.choice([True, False, ""])
            if rng.random() < 0.5:
                parent["caption"] = rng.choice(["IO caption", "x"])
            if rng.random() < 0.3:
                parent["source"] = "https://example.com/src"
            dirs = [self.gen_dir(rng, "input", page, files, small), self.gen_dir(rng, "output", page, files, small)]
            # the two directives must not fight over one path with different content
            seen, keep = {}, []
            for f in files:
                if f["path"] not in seen:
                    seen[f["path"]] = f
                    keep.append(f)
            if rng.random() < 0.1:
                dirs[1]["opts"]["visible"] = False
            case = {"kind": "io", "page": page, "files": keep, "parent": parent, "dirs": dirs}
        return case

    def exhaustive(self):
        """every (start position, end position) pair incl. 'absent' in files of <= 5 lines, for each marker-option subset,
        with and without dedent flag, with and without trailing newline"""
        for nl in range(0, 6):
            for si in list(range(nl)) + [None]:
                for ei in list(range(nl)) + [None]:
                    for trailing in (False, True):
                        lines = [("  " if k % 2 else "    ") + f"l{k}" for k in range(nl)]
                        if si is not None:
                            lines[si] = "  // S"
                        if ei is not None:
                            lines[ei] = "// E" if ei != si else "// S E"
                        text = "\n".join(lines) + ("\n" if trailing else "")
                        for sub in range(4):
                            opts = {}
                            if sub & 1:
                                opts["start-after"] = "S"
                            if sub & 2:
                                opts["end-before"] = "E"
                            if (nl + sub) % 2:
                                opts["dedent"] = True
                            yield {"kind": "lit", "page": "index.txt", "files": [{"path": "f.txt", "text": text}],
                                   "dirs": [{"name": "literalinclude", "arg": "/f.txt", "opts": opts}]}

        # emphasize-lines at every position around the file length, small files, with / without a marker
        for nl in range(0, 4):
            for trailing in (False, True):
                text = "\n".join(f"l{k}" for k in range(nl)) + ("\n" if trailing else "")
                nfile = len(text.split("\n"))
                for a in range(0, nfile + 3):
                    for spec in (str(a), f"1-{a}"):
                        for marker in (False, True):
                            opts = {"emphasize-lines": spec}
                            t = text
                            if marker:
                                t = "// E\n" + text
                                opts["end-before"] = "E"
                            yield {"kind": "lit", "page": "index.txt", "files": [{"path": "f.txt", "text": t}],
                                   "dirs": [{"name": "literalinclude", "arg": "/f.txt", "opts": opts}]}

    def malformed(self, rng):
        """option values the option converters reject, missing arguments: nothing may crash"""
        page = "dir/page.txt"
        files = [{"path": "inc/f.txt", "text": "a\n// s\n  b\n// e\nc\n"}]
        bad = rng.choice([{"dedent": "x"}, {"dedent": "-2"}, {"lineno-start": "-3"}, {"copyable": "maybe"}, {"linenos": "yes"},
                          {"dedent": "1.5"}, {"lineno-start": "x"}])
        kind = rng.choice(["lit", "lit", "io", "noarg", "noarg-io"])
        if kind == "lit":
            return {"kind": "lit", "reject": True, "page": page, "files": files,
                    "dirs": [{"name": "literalinclude", "arg": "/inc/f.txt", "opts": {"start-after": "s", **bad}}]}
        if kind == "io":
            bad = {k: v for k, v in bad.items() if k != "copyable"} or {"dedent": "x"}
            return {"kind": "io", "reject": True, "page": page, "files": files, "parent": {},
                    "dirs": [{"name": "input", "arg": "/inc/f.txt", "opts": bad}, {"name": "output", "arg": "/inc/f.txt", "opts": {}}]}
        if kind == "noarg":
            return {"kind": "lit", "page": page, "files": files, "dirs": [{"name": "literalinclude", "arg": None, "opts": {}}]}
        return {"kind": "io", "page": page, "files": files, "parent": {},
                "dirs": [{"name": "input", "arg": None, "opts": {"language": "py"}}, {"name": "output", "arg": "/inc/f.txt", "opts": {"end-before": "e"}}]}

    def generate(self, rng, budget, tier):
        if tier != "search":
            yield from self.exhaustive()
        for k in range(budget):
            if k % 25 == 24:
                yield self.malformed(rng)
            else:
                yield self.gen_case(rng, small=(k % 3 != 0))

    def shrink_candidates(self, case):
        # io -> a plain literalinclude of one of the two directives
        if case["kind"] == "io":
            for d in case["dirs"]:
                if d.get("arg") is not None:
                    c = copy.deepcopy(case)
                    c["kind"] = "lit"
                    c.pop("parent", None)
                    o = {k: v for k, v in d["opts"].items() if k != "visible"}
                    c["dirs"] = [{"name": "literalinclude", "arg": d["arg"], "opts": o}]
                    yield c
        # options
        for di, d in enumerate(case["dirs"]):
            for k in list(d["opts"]):
                c = copy.deepcopy(case)
                del c["dirs"][di]["opts"][k]
                yield c
        for k in list(case.get("parent") or {}):
            c = copy.deepcopy(case)
            del c["parent"][k]
            yield c
        # files that are not needed, page at the top level
        for fi, f in enumerate(case["files"]):
            if len(case["files"]) > 1:
                c = copy.deepcopy(case)
                del c["files"][fi]
                yield c
        # file lines
        for fi, f in enumerate(case["files"]):
            if "text" in f:
                ls = f["text"].split("\n")
                if len(ls) > 4:
                    for half in (ls[: len(ls) // 2], ls[len(ls) // 2:]):
                        c = copy.deepcopy(case)
                        c["files"][fi]["text"] = "\n".join(half)
                        yield c
                for i in range(len(ls)):
                    c = copy.deepcopy(case)
                    c["files"][fi]["text"] = "\n".join(ls[:i] + ls[i + 1:])
                    yield c
        for fi, f in enumerate(case["files"]):
            if "text" in f:
                ls = f["text"].split("\n")
                for i, l in enumerate(ls):
                    if len(l) > 1 and l.strip() and not l.lstrip().startswith(("//", "#", "<!--", "/*", "--", ";")):
                        c = copy.deepcopy(case)
                        c["files"][fi]["text"] = "\n".join(ls[:i] + [l[: len(l) - len(l.lstrip())] + "a"] + ls[i + 1:])
                        if c != case:
                            yield c

    # ---- implementation ---------------------------------------------------------------
    def run_impl(self, case):
        text, dlines = render(case)
        root = Path(tempfile.mkdtemp(prefix=f"verif-c20-{os.getpid()}-"))
        try:
            src = root / "source"
            src.mkdir()
            for f in case["files"]:
                p = src / f["path"]
                if f.get("dir"):
                    p.mkdir(parents=True, exist_ok=True)
                    continue
                p.parent.mkdir(parents=True, exist_ok=True)
                p.write_bytes(file_bytes(f))
            cfg = ProjectConfig(root, "verif")
            parser = rstparser.Parser(cfg, JSONVisitor)
            try:
                page, diags = parse_rst(parser, FileId(case["page"]), text)[0]
            except Exception as e:  # the property: never a crash
                return {"exc": type(e).__name__, "msg": str(e)[:200], "dlines": dlines}
            found = []

            def walk(x):
                if isinstance(x, n.Directive) and x.name in DIRNAMES:
                    code = None
                    for c in x.children:
                        if isinstance(c, n.Code):
                            code = {"lang": c.lang, "caption": c.caption, "copyable": c.copyable,
                                    "emphasize_lines": None if c.emphasize_lines is None else [list(p) for p in c.emphasize_lines],
                                    "value": c.value, "linenos": c.linenos, "lineno_start": c.lineno_start, "source": c.source}
                    opts = {k: (v if isinstance(v, (bool, int, str)) or v is None else str(v)) for k, v in x.options.items()}
                    found.append({"name": x.name, "line": x.start[0], "options": opts, "code": code})
                for c in getattr(x, "children", []):
                    walk(c)

            walk(page.ast)
            dg = []
            for d in diags:
                cls = type(d).__name__
                kind = cls
                if cls == "InvalidLiteralInclude":
                    m = d.message
                    kind += (":not-found" if re.search(r'^".*" not found in ', m, re.S) else
                             ":order" if re.search(r'^".*" precedes ".*" in ', m, re.S) else
                             ":emphasize" if m.startswith("Invalid emphasize-lines") else ":other")
                dg.append({"cls": cls, "kind": kind, "line": d.start[0]})
            deps = page.dependencies.dependencies
            return {"exc": None, "dirs": found, "diags": dg, "dlines": dlines,
                    "deps": None if deps is None else {k.as_posix(): v for k, v in deps.items()}}
        finally:
            shutil.rmtree(root, ignore_errors=True)

    # ---- model ------------------------------------------------------------------------
    def model_request(self, case):
        if case.get("reject"):
            return None
        chars = set()
        dirs = []
        for d in case["dirs"]:
            o = dict(d["opts"])
            o.pop("visible", None)
            if o.get("copyable") == "":
                o["copyable"] = True
            if d.get("arg") is None:
                f = {"kind": "oserror"}
            else:
                _, kind, val = file_state(case, d)
                f = {"kind": kind}
                if kind == "text":
                    f["text"] = val
                    chars.update(val)
            for k in ("start-after", "end-before", "emphasize-lines"):
                chars.update(o.get(k, ""))
            dirs.append({"name": d["name"], "hasArg": d.get("arg") is not None, "opts": o, "file": f})
        parent = None
        if case["kind"] == "io":
            parent = dict(case.get("parent") or {})
            if parent.get("copyable") == "":
                parent["copyable"] = True
        nonascii = sorted(c for c in chars if ord(c) >= 128)
        return {"op": "c20.run", "parent": parent, "dirs": dirs,
                "wordchars": "".join(c for c in nonascii if re.fullmatch(r"\w", c)),
                "spacechars": "".join(c for c in nonascii if c.isspace())}

    @staticmethod
    def by_directive(case, impl):
        """impl diagnostics / nodes grouped per directive of the case (by source line)"""
        out = []
        for d, ln in zip(case["dirs"], impl["dlines"]):
            node = next((x for x in impl["dirs"] if x["line"] == ln and x["name"] == d["name"]), None)
            dg = [g for g in impl["diags"] if g["line"] == ln and g["cls"] in RELEVANT]
            out.append((d, node, dg))
        return out

    def compare(self, case, model, impl):
        if impl["exc"]:
            return f"implementation raised {impl['exc']}: {impl.get('msg')}"
        any_fail = any(m["code"] is None for m in model["dirs"])
        for (d, node, dg), m in zip(self.by_directive(case, impl), model["dirs"]):
            kinds = [g["kind"] for g in dg]
            if kinds != m["diags"]:
                return f"{d['name']}: diagnostics differ: model {m['diags']} impl {kinds}"
            if d.get("arg") is not None:
                fid = resolve(case, d["arg"])
                got = "unset" if impl["deps"] is None or fid not in impl["deps"] else ("none" if impl["deps"][fid] is None else "hash")
                if got != m["dep"]:
                    return f"{d['name']}: dependency state differs: model {m['dep']} impl {got}"
            if d.get("arg") is None:
                continue  # raw content: the code node is built by the rst directive class, not by the handler
            if node is None:
                if case["kind"] == "io" and (any_fail or any(x.get("arg") is None for x in case["dirs"])):
                    continue  # io-code-block drops its children when one of them is unusable
                return f"{d['name']}: directive node missing from the AST"
            # option transport (harness sanity): what the handler saw is what the case says
            want_opts = {k: (True if (v == "" and k == "copyable") else v) for k, v in d["opts"].items()}
            if node["options"] != want_opts:
                return f"{d['name']}: options reached the handler as {node['options']}, case says {want_opts}"
            if node["code"] != m["code"]:
                if m["code"] is None or node["code"] is None:
                    return f"{d['name']}: code node: model {m['code'] is not None} impl {node['code'] is not None}"
                diff = [k for k in m["code"] if m["code"][k] != node["code"].get(k)]
                return f"{d['name']}: code fields differ {diff}: model {[m['code'][k] for k in diff]} impl {[node['code'].get(k) for k in diff]}"
        return None

    # ---- direct oracle: the property itself, recomputed without model and without regex ----
    def oracle(self, case, impl):
        if impl["exc"]:
            return f"crash: {impl['exc']}: {impl.get('msg')}"
        if case.get("reject"):
            return None
        states = [file_state(case, d) if d.get("arg") is not None else (None, None, None) for d in case["dirs"]]
        io_broken = case["kind"] == "io" and any(k != "text" for _, k, _ in states)
        for (d, node, dg), (fid, kind, val) in zip(self.by_directive(case, impl), states):
            nm = d["name"]
            if d.get("arg") is None:
                continue
            o = d["opts"]
            classes = [g["cls"] for g in dg]
            # dependency recorded for cache invalidation
            deps = impl["deps"]
            if deps is None or fid not in deps:
                return f"dep: {nm}: included file {fid} not recorded as a dependency"
            if kind == "oserror":
                if deps[fid] is not None:
                    return f"dep: {nm}: unreadable file {fid} recorded with a hash"
            elif deps[fid] != hashlib.blake2b(val if kind == "undecodable" else val.encode("utf-8")).hexdigest():
                return f"dep: {nm}: recorded hash of {fid} is not the hash of its content"
            if kind != "text":
                if "CannotOpenFile" not in classes:
                    return f"unreported: {nm}: {kind} file without CannotOpenFile diagnostic"
                if node is not None and node["code"] is not None:
                    return f"unreported: {nm}: {kind} file but a code block was produced"
                continue
            if "CannotOpenFile" in classes:
                return f"spurious: {nm}: readable file reported as CannotOpenFile"
            lines = val.split("\n")
            problems = 0
            skip_value = False
            i = j = None
            if "start-after" in o:
                i = first_carrying(lines, o["start-after"])
                if i is None:
                    problems += 1
                    skip_value = True
            if "end-before" in o:
                j = first_carrying(lines, o["end-before"])
                if j is None:
                    problems += 1
                    skip_value = True
            if i is not None and j is not None and j <= i:
                problems += 1
                skip_value = True
            emph = None
            if "emphasize-lines" in o:
                emph = simple_emphasis(o["emphasize-lines"])
                if emph is not None and any(hi > len(lines) or lo > len(lines) for lo, hi in emph):
                    problems += 1
            kinds_ = [g["kind"] for g in dg]
            if "InvalidLiteralInclude:order" in kinds_ and not (i is not None and j is not None and j <= i):
                where = "is absent" if (i is None or j is None) else f"is on line {i + 1}, the end marker on line {j + 1}"
                return (f"invented: {nm}: the markers are reported as out of order although they are not "
                        f"(both requested: {'start-after' in o and 'end-before' in o}; the start marker {where})")
            if "InvalidLiteralInclude:not-found" in kinds_ and not (("start-after" in o and i is None) or ("end-before" in o and j is None)):
                return f"invented: {nm}: a marker is reported as not found although every requested marker is carried by a line of the file"
            n_invalid = classes.count("InvalidLiteralInclude")
            if n_invalid < problems:
                return (f"unreported: {nm}: {problems} reportable problem(s) (marker absent / out of order / emphasised line outside the file) "
                        f"but {n_invalid} InvalidLiteralInclude diagnostic(s)")
            if node is None or node["code"] is None:
                if io_broken or (case["kind"] == "io" and any(x.get("arg") is None for x in case["dirs"])):
                    continue
                return f"nocode: {nm}: readable file but no code block"
            code = node["code"]
            if not skip_value:
                lo = i + 1 if i is not None else 0
                hi = j if j is not None else len(lines)
                want = lines[lo:hi]
                if "dedent" in o:
                    if o["dedent"] is True:
                        ind = [lead_ws(l) for l in want if lead_ws(l) < len(l)]
                        k = min(ind) if ind else 0
                    else:
                        k = o["dedent"]
                    want = [l[k:] for l in want]
                if code["value"] != "\n".join(want):
                    return (f"value: {nm}: excerpt is not the lines strictly between the markers (lines[{lo}:{hi}] of {len(lines)}"
                            f"{', dedent ' + str(o['dedent']) if 'dedent' in o else ''}): want {chr(10).join(want)!r} got {code['value']!r}")
            # requested settings carried
            if "language" in o and code["lang"] != o["language"]:
                return f"settings: {nm}: language {o['language']!r} requested, code has {code['lang']!r}"
            cap = (case.get("parent") or {}).get("caption") if case["kind"] == "io" else o.get("caption")
            if cap is not None and code["caption"] != cap:
                return f"settings: {nm}: caption {cap!r} requested, code has {code['caption']!r}"
            if code["linenos"] != ("linenos" in o):
                return f"settings: {nm}: linenos {'linenos' in o} requested, code has {code['linenos']!r}"
            if code["lineno_start"] != o.get("lineno-start"):
                return f"settings: {nm}: lineno-start {o.get('lineno-start')!r} requested, code has {code['lineno_start']!r}"
            # neutral band: line 0 and the empty "line" after a trailing newline are neither required nor forbidden
            inside_max = len(lines) - (1 if lines[-1] == "" else 0)
            if emph is not None and all(1 <= lo <= hi <= inside_max for lo, hi in emph):
                if code["emphasize_lines"] != [list(p) for p in emph]:
                    return (f"settings: {nm}: emphasize-lines {o['emphasize-lines']!r} lies inside the file ({len(lines)} lines) "
                            f"but code has {code['emphasize_lines']!r}")
            if "emphasize-lines" not in o and code["emphasize_lines"] is not None:
                return f"settings: {nm}: no emphasis requested, code has {code['emphasize_lines']!r}"
        return None

    def finding_key(self, case, impl, desc):
        head = desc.split(":")[0]
        if head == "crash":
            return "crash:" + desc.split(":")[1].strip()
        if head == "value":
            return "value"
        if head == "settings":
            return "settings:" + desc.split(":")[2].strip().split(" ")[0]
        return head

    # ---- evidence ---------------------------------------------------------------------
    def nontrivial_key(self, case, impl):
        if impl.get("exc") or case.get("reject"):
            return None
        for d in case["dirs"]:
            if d.get("arg") is not None and file_state(case, d)[1] == "text" and (
                    "start-after" in d["opts"] or "end-before" in d["opts"] or "dedent" in d["opts"]):
                return json.dumps(case, sort_keys=True)
        return None

    def branch_tags(self, case, model, impl):
        tags = [case["kind"]]
        if case.get("reject"):
            tags.append("rejected-option")
        if impl.get("exc"):
            tags.append("exc:" + impl["exc"])
            return tags
        for g in impl["diags"]:
            if g["cls"] in RELEVANT:
                tags.append("diag:" + g["kind"])
        for d in case["dirs"]:
            if d.get("arg") is None:
                tags.append("no-argument")
                continue
            tags.append("path:absolute" if d["arg"].startswith("/") else "path:relative")
            _, kind, val = file_state(case, d)
            tags.append("file:" + kind)
            if kind != "text":
                continue
            lines = val.split("\n")
            o = d["opts"]
            i = first_carrying(lines, o["start-after"]) if "start-after" in o else None
            j = first_carrying(lines, o["end-before"]) if "end-before" in o else None
            if i is not None and j is not None:
                tags.append("markers:" + ("reversed" if j < i else "same-line" if j == i else "adjacent" if j == i + 1 else "ordered"))
            if i == 0:
                tags.append("start-on-first-line")
            if i is not None and i == len(lines) - 1:
                tags.append("start-on-last-line")
            if j == 0:
                tags.append("end-on-first-line")
            if "dedent" in o:
                tags.append("dedent:flag" if o["dedent"] is True else "dedent:count")
            if "\r" in val:
                tags.append("crlf")
        return tags

    def sample(self, case, impl):
        return {"rst": render(case)[0], "files": case["files"][:2], "impl": {k: impl.get(k) for k in ("exc", "dirs", "diags", "deps")}}


PROP = C20()
