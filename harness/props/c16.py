"""C16 — configuration and spec loading is total and type-sound.

Ties: (1) translator `gen_tables` -> lean/SnootyVerif/Gen/Types.lean (the `Ty` of every @checked dataclass
reachable from ProjectConfig / Spec / TaxonomySpec, read from the IMPORTED modules);
(2) correspondence of `flutter.check_type`, `ProjectConfig.open` / `Project(...)`, `Spec.loads` with the Lean
models `check`, `openConfig`, `resolveCategory`; (3) direct oracle (independent conformance walk of returned
objects, exception classes, must-reject tags set by the generator)."""
import copy
import dataclasses
import datetime
import enum
import json
import os
import re
import sys
import tempfile
import typing
from pathlib import Path

import core
import tomli
from snooty import flutter, n, specparser, taxonomy, types as stypes, util
from snooty.diagnostics import UnmarshallingError

ROOTS = [stypes.ProjectConfig, specparser.Spec, taxonomy.TaxonomySpec]
NONE_TYPE = type(None)
UNKNOWN = "zz_unknown"
GEN_FILE = core.LEAN / "SnootyVerif" / "Gen" / "Types.lean"


# ----------------------------------------------------------------------------------------------
# Python type  ->  Ty JSON (the classification check_type applies to a *type*, in its branch order)
# ----------------------------------------------------------------------------------------------

class Untranslatable(Exception):
    pass


def post_of(cls):
    """__post_init__ validators that can raise (modelled explicitly)."""
    if cls is specparser.LinkRoleType:
        return "link"
    return None


def ty_json(t, refs=True):
    if isinstance(t, type) and issubclass(t, (str, int, float, bool, NONE_TYPE)):
        for prim, nm in ((bool, "bool"), (str, "str"), (int, "int"), (float, "float"), (NONE_TYPE, "none")):
            if t is prim:
                return {"k": nm}
        raise Untranslatable(f"subclass of a primitive: {t!r}")
    if isinstance(t, enum.EnumMeta):
        members = []
        for nm, m in t.__members__.items():
            if m.name != nm:
                raise Untranslatable(f"enum alias {t.__name__}.{nm}")
            if isinstance(m.value, bool) or not isinstance(m.value, (int, str)):
                raise Untranslatable(f"enum value of {t.__name__}.{nm} is neither int nor str")
            members.append([nm, str(m.value) if isinstance(m.value, int) else None])
        return {"k": "enum", "name": t.__name__, "members": members}
    if t in flutter.CACHED_TYPES:
        if refs:
            return {"k": "ref", "name": t.__name__}
        return record_json(t)
    origin = getattr(t, "__origin__", None)
    if origin is not None:
        args = getattr(t, "__args__")
        if origin is list:
            return {"k": "list", "t": ty_json(args[0], refs)}
        if origin is set:
            return {"k": "set", "t": ty_json(args[0], refs)}
        if origin is dict:
            return {"k": "dict", "key": ty_json(args[0], refs), "val": ty_json(args[1], refs)}
        if origin is tuple:
            if Ellipsis in args:
                raise Untranslatable(f"variadic tuple {t!r}")
            return {"k": "tuple", "ts": [ty_json(a, refs) for a in args]}
        if origin is typing.Union:
            return {"k": "union", "ts": [ty_json(a, refs) for a in args]}
        return {"k": "unsupported"}
    if t is object or t is typing.Any:
        return {"k": "any"}
    if isinstance(t, type):
        return {"k": "cls", "name": t.__name__}
    raise Untranslatable(f"not a class: {t!r}")


def record_json(cls, refs=True):
    hints = typing.get_type_hints(cls)
    fields = []
    for f in dataclasses.fields(cls):
        has_default = f.default is not dataclasses.MISSING or f.default_factory is not dataclasses.MISSING
        fields.append([f.name, ty_json(hints[f.name], refs), has_default])
    return {"k": "record", "name": cls.__name__, "fields": fields, "post": post_of(cls)}


def reachable_classes():
    """checked dataclasses reachable from the roots, dependencies first"""
    order, seen, stack = [], set(), set()

    def deps(t, acc):
        if t in flutter.CACHED_TYPES:
            acc.append(t)
            return
        for a in getattr(t, "__args__", ()) or ():
            deps(a, acc)

    def visit(cls):
        if cls in seen:
            return
        if cls in stack:
            raise Untranslatable(f"recursive checked dataclass {cls.__name__}")
        stack.add(cls)
        hints = typing.get_type_hints(cls)
        for f in dataclasses.fields(cls):
            acc = []
            deps(hints[f.name], acc)
            for d in acc:
                visit(d)
        stack.discard(cls)
        seen.add(cls)
        order.append(cls)

    for r in ROOTS:
        visit(r)
    return order


def lean_str(s):
    return json.dumps(s, ensure_ascii=False)


LEAN_KEYWORDS = {"meta", "set", "open", "end", "at", "from", "in", "with", "do", "then", "else", "if", "fun", "let", "have", "show", "by",
                 "instance", "structure", "class", "inductive", "def", "theorem", "example", "section", "namespace", "universe", "variable",
                 "import", "export", "private", "protected", "public", "mutual", "where", "deriving", "macro", "syntax", "notation", "module"}


def lean_name(cls_name):
    nm = cls_name[0].lower() + cls_name[1:]
    return f"\u00ab{nm}\u00bb" if nm in LEAN_KEYWORDS else nm


def ty_lean(j):
    k = j["k"]
    if k in ("str", "int", "float", "bool", "none", "any", "unsupported"):
        return "Ty." + k
    if k == "ref":
        return lean_name(j["name"])
    if k == "cls":
        return f"(Ty.cls {lean_str(j['name'])})"
    if k == "enum":
        ms = ", ".join(f"({lean_str(nm)}, {'some ' + ('(' + v + ')' if v.startswith('-') else v) if v is not None else 'none'})" for nm, v in j["members"])
        return f"(Ty.enum {lean_str(j['name'])} [{ms}])"
    if k in ("list", "set"):
        return f"(Ty.{k} {ty_lean(j['t'])})"
    if k == "dict":
        return f"(Ty.dict {ty_lean(j['key'])} {ty_lean(j['val'])})"
    if k in ("tuple", "union"):
        inner = "Tys.nil"
        for t in reversed(j["ts"]):
            inner = f"(Tys.cons {ty_lean(t)} {inner})"
        return f"(Ty.{k} {inner})"
    if k == "record":
        inner = "Fields.nil"
        for nm, t, d in reversed(j["fields"]):
            inner = f"(Fields.cons {lean_str(nm)} {ty_lean(t)} {'true' if d else 'false'}\n    {inner})"
        post = f"(Post.onePlaceholder {lean_str(j['post'])})" if j.get("post") else "Post.none"
        return f"(Ty.record {lean_str(j['name'])}\n    {inner} {post})"
    raise Untranslatable(k)


def render_gen():
    classes = reachable_classes()
    names = [c.__name__ for c in classes]
    if len(set(names)) != len(names):
        raise Untranslatable("duplicate class names among checked dataclasses")
    out = [
        "import SnootyVerif.Model.Flutter",
        "/-! GENERATED by harness/props/c16.py (gen_tables) from the imported snooty modules",
        "(typing.get_type_hints / dataclasses.fields of every @checked dataclass reachable from",
        "ProjectConfig, Spec and TaxonomySpec). Do not edit. -/",
        "namespace SnootyVerif.Gen.Types",
        "open SnootyVerif.Flutter",
        "",
    ]
    for c in classes:
        out.append(f"def {lean_name(c.__name__)} : Ty :=\n  {ty_lean(record_json(c))}\n")
    out.append("def table : List (String × Ty) :=\n  [" + ",\n   ".join(f"({lean_str(c.__name__)}, {lean_name(c.__name__)})" for c in classes) + "]\n")
    out.append("end SnootyVerif.Gen.Types")
    return "\n".join(out) + "\n", classes


# ----------------------------------------------------------------------------------------------
# tagged values (JSON)  <->  Python objects
# ----------------------------------------------------------------------------------------------

def make_obj(name):
    if name in ("Path", "PosixPath", "PurePath"):
        return Path("/nonexistent-root")
    if name == "datetime":
        return datetime.datetime(2020, 1, 2, 3, 4, 5)
    if name == "date":
        return datetime.date(2020, 1, 2)
    if name == "time":
        return datetime.time(3, 4, 5)
    if name == "ParsedBannerConfig":
        return stypes.ParsedBannerConfig(["a"], n.Directive((0,), [], "mongodb", "banner", [], {}))
    if name in ("InlineNode", "Text"):
        return n.Text((0,), "x")
    if name == "FormattingType":
        return specparser.FormattingType.strong
    return object()


def to_val(o):
    """Python plain value -> tagged JSON"""
    if o is None:
        return {"t": "n"}
    if isinstance(o, bool):
        return {"t": "b", "v": o}
    if isinstance(o, int):
        return {"t": "i", "v": str(o)}
    if isinstance(o, float):
        return {"t": "f", "v": repr(o)}
    if isinstance(o, str):
        return {"t": "s", "v": o}
    if isinstance(o, list):
        return {"t": "l", "v": [to_val(x) for x in o]}
    if isinstance(o, dict):
        return {"t": "d", "v": [[str(k), to_val(v)] for k, v in o.items()]}
    return {"t": "o", "cls": [c.__name__ for c in type(o).__mro__]}


def from_val(v):
    t = v["t"]
    if t == "n":
        return None
    if t == "b":
        return v["v"]
    if t == "i":
        return int(v["v"])
    if t == "f":
        return float(v["v"])
    if t == "s":
        return v["v"]
    if t == "l":
        return [from_val(x) for x in v["v"]]
    if t == "d":
        return {k: from_val(x) for k, x in v["v"]}
    if t == "o":
        return make_obj(v["cls"][0])
    raise ValueError(t)


def norm_val(v):
    """re-tag (class names of objects come from the real object)"""
    return to_val(from_val(v))


def canon(o):
    """canonical JSON of a check_type *result* (same shape as the driver's TVal JSON)"""
    if o is None:
        return {"t": "n"}
    if isinstance(o, enum.Enum):
        return {"t": "e", "enum": type(o).__name__, "m": o.name}
    if isinstance(o, bool):
        return {"t": "b", "v": o}
    if isinstance(o, int):
        return {"t": "i", "v": str(o)}
    if isinstance(o, float):
        return {"t": "f", "v": repr(o)}
    if isinstance(o, str):
        return {"t": "s", "v": o}
    if type(o) in flutter.CACHED_TYPES:
        return {"t": "r", "name": type(o).__name__,
                "fields": sorted([f.name, canon(getattr(o, f.name))] for f in dataclasses.fields(o))}
    if isinstance(o, list):
        return {"t": "l", "v": [canon(x) for x in o]}
    if isinstance(o, (set, frozenset)):
        return {"t": "S", "v": sorted((set_elem(canon(x)) for x in o), key=lambda c: json.dumps(c, sort_keys=True))}
    if isinstance(o, tuple):
        return {"t": "T", "v": [canon(x) for x in o]}
    if isinstance(o, dict):
        return {"t": "d", "v": [[canon(k), canon(v)] for k, v in o.items()]}
    return {"t": "o", "cls": [c.__name__ for c in type(o).__mro__]}


def set_elem(c):
    """Python identifies True with 1 and False with 0 inside a set"""
    return {"t": "i", "v": "1" if c["v"] else "0"} if c["t"] == "b" else c


def canon_raw(v):
    """tagged input value -> the canonical form its unchanged pass-through has"""
    t = v["t"]
    if t in ("n", "b", "i", "f", "s", "o"):
        return v
    if t == "l":
        return {"t": "l", "v": [canon_raw(x) for x in v["v"]]}
    return {"t": "d", "v": [[{"t": "s", "v": k}, canon_raw(x)] for k, x in v["v"]]}


def model_to_canon(m, defaults):
    """driver TVal JSON -> canonical form; `dflt` is replaced through `defaults(record, field)`"""
    t = m["t"]
    if t in ("n", "b", "i", "f", "s", "e"):
        return m
    if t == "raw":
        return canon_raw(m["v"])
    if t in ("l", "T"):
        return {"t": t, "v": [model_to_canon(x, defaults) for x in m["v"]]}
    if t == "S":
        seen, out = set(), []
        for x in m["v"]:
            c = set_elem(model_to_canon(x, defaults))
            key = json.dumps(c, sort_keys=True)
            if key not in seen:
                seen.add(key)
                out.append(c)
        return {"t": "S", "v": sorted(out, key=lambda c: json.dumps(c, sort_keys=True))}
    if t == "d":
        return {"t": "d", "v": [[model_to_canon(k, defaults), model_to_canon(x, defaults)] for k, x in m["v"]]}
    if t == "r":
        fs = []
        for k, x in m["fields"]:
            fs.append([k, defaults(m["name"], k) if x["t"] == "dflt" else model_to_canon(x, defaults)])
        return {"t": "r", "name": m["name"], "fields": sorted(fs)}
    raise ValueError(t)


# ----------------------------------------------------------------------------------------------
# declared types and synthetic types
# ----------------------------------------------------------------------------------------------

_DECL = None


def declared():
    global _DECL
    if _DECL is None:
        classes = reachable_classes()
        _DECL = {c.__name__: (c, record_json(c)) for c in classes}
    return _DECL


_SYN = {}
_SYN_BY_NAME = {}


def py_type(j):
    """Ty JSON -> Python typing object (declared classes by name, synthetic records created once)"""
    k = j["k"]
    if k == "ref":
        return declared()[j["name"]][0]
    if k in ("str", "int", "float", "bool"):
        return {"str": str, "int": int, "float": float, "bool": bool}[k]
    if k == "none":
        return NONE_TYPE
    if k == "any":
        return typing.Any
    if k == "unsupported":
        return typing.FrozenSet[str]
    if k == "cls":
        return {"Path": Path, "date": datetime.date}[j["name"]]
    if k == "list":
        return typing.List[py_type(j["t"])]
    if k == "set":
        return typing.Set[py_type(j["t"])]
    if k == "dict":
        return typing.Dict[py_type(j["key"]), py_type(j["val"])]
    if k == "tuple":
        return typing.Tuple[tuple(py_type(t) for t in j["ts"])]
    if k == "union":
        return typing.Union[tuple(py_type(t) for t in j["ts"])]
    key = json.dumps(j, sort_keys=True)
    if key in _SYN:
        return _SYN[key]
    if k == "enum":
        t = enum.Enum(j["name"], {nm: int(v) for nm, v in j["members"]})
    elif k == "record":
        if j["name"] in declared():
            t = declared()[j["name"]][0]
        else:
            fields = []
            for nm, ft, d in j["fields"]:
                if d:
                    fields.append((nm, py_type(ft), dataclasses.field(default_factory=(lambda ft=ft: syn_default(ft)))))
                else:
                    fields.append((nm, py_type(ft)))
            t = flutter.checked(dataclasses.make_dataclass(j["name"], fields, kw_only=True))
            _SYN_BY_NAME[j["name"]] = t
    else:
        raise ValueError(k)
    _SYN[key] = t
    return t


def syn_default(ft):
    """a conforming default for a synthetic field (check_type never checks defaults; the oracle walks them)"""
    v = gen_conf(ft, core.random.Random(json.dumps(ft, sort_keys=True)))
    if v is None:
        raise Untranslatable("no default")
    built = check_free_build(ft, v)
    if conform(built, py_type(ft)):
        raise Untranslatable("no conforming default")
    return built


def check_free_build(ft, v):
    """typed Python value for a conforming plain value, built without check_type"""
    ft = resolve_ref(ft)
    k = ft["k"]
    if k == "enum":
        t = py_type(ft)
        return t[v["v"]] if v["t"] == "s" else t(int(v["v"]))
    if k == "list":
        return [check_free_build(ft["t"], x) for x in v["v"]]
    if k == "set":
        return set(check_free_build(ft["t"], x) for x in v["v"])
    if k == "tuple":
        return tuple(check_free_build(t, x) for t, x in zip(ft["ts"], v["v"]))
    if k == "dict":
        return {check_free_build(ft["key"], {"t": "s", "v": kk}): check_free_build(ft["val"], x) for kk, x in v["v"]}
    if k == "union":
        for t in ft["ts"]:
            if plausible(resolve_ref(t), v):
                try:
                    cand = check_free_build(t, v)
                except Exception:
                    continue
                if not conform(cand, py_type(t)):
                    return cand
        raise Untranslatable("no default")
    if k == "record":
        cls = py_type(ft)
        kw = {}
        given = dict((kk, x) for kk, x in v["v"])
        for nm, t, d in ft["fields"]:
            if nm in given:
                kw[nm] = check_free_build(t, given[nm])
            elif not d:
                kw[nm] = None
        return cls(**kw)
    return from_val(v)


def has_syn_default(ft):
    try:
        syn_default(ft)
        return True
    except Exception:
        return False


def resolve_ref(j):
    return declared()[j["name"]][1] if j["k"] == "ref" else j


def default_of(record_name, field):
    if record_name not in declared():
        cls = _SYN_BY_NAME[record_name]
        return canon(next(f for f in dataclasses.fields(cls) if f.name == field).default_factory())
    cls = declared()[record_name][0]
    for f in dataclasses.fields(cls):
        if f.name == field:
            if f.default_factory is not dataclasses.MISSING:
                return canon(f.default_factory())
            return canon(f.default)
    raise KeyError(field)


def union_flat(j):
    """typing.Union flattens and removes duplicates; keep synthetic types in the same normal form"""
    out = []
    for t in j["ts"]:
        t = norm_ty(t)
        for u in (t["ts"] if t["k"] == "union" else [t]):
            if u not in out:
                out.append(u)
    # typing also identifies equal hashable args, e.g. Union[int, bool] stays; fine
    return out[0] if len(out) == 1 else {"k": "union", "ts": out}


def norm_ty(j):
    k = j["k"]
    if k == "union":
        return union_flat(j)
    if k in ("list", "set"):
        return {"k": k, "t": norm_ty(j["t"])}
    if k == "dict":
        return {"k": k, "key": norm_ty(j["key"]), "val": norm_ty(j["val"])}
    if k == "tuple":
        return {"k": k, "ts": [norm_ty(t) for t in j["ts"]]}
    if k == "record":
        return {**j, "fields": [[nm, norm_ty(t), d] for nm, t, d in j["fields"]]}
    return j


_syn_counter = [0]


def gen_type(rng, depth=0):
    """random synthetic declared type (hashable results only inside Set / Dict keys)"""
    leaf = ["str", "int", "float", "bool", "none", "any", "enum", "cls", "unsupported"]
    comp = ["list", "set", "dict", "tuple", "union", "union", "optional", "record"]
    k = rng.choice(leaf if depth >= 3 else leaf + comp + comp)
    if k in ("str", "int", "float", "bool", "none", "any", "unsupported"):
        return {"k": k}
    if k == "enum":
        return rng.choice([
            {"k": "enum", "name": "Colour", "members": [["red", "1"], ["green", "2"], ["blue", "3"]]},
            {"k": "enum", "name": "Level", "members": [["lo", "0"], ["hi", "10"]]},
        ])
    if k == "cls":
        return {"k": "cls", "name": rng.choice(["Path", "date"])}
    if k == "list":
        return {"k": "list", "t": gen_type(rng, depth + 1)}
    if k == "set":
        return {"k": "set", "t": rng.choice([{"k": "str"}, {"k": "int"}, {"k": "bool"}, {"k": "enum", "name": "Colour", "members": [["red", "1"], ["green", "2"], ["blue", "3"]]}])}
    if k == "dict":
        return {"k": "dict", "key": rng.choice([{"k": "str"}, {"k": "str"}, {"k": "any"}, {"k": "enum", "name": "Level", "members": [["lo", "0"], ["hi", "10"]]}, {"k": "int"}]),
                "val": gen_type(rng, depth + 1)}
    if k == "tuple":
        return {"k": "tuple", "ts": [gen_type(rng, depth + 1) for _ in range(rng.randint(0, 3))]}
    if k == "union":
        return norm_ty({"k": "union", "ts": [gen_type(rng, depth + 1) for _ in range(rng.randint(2, 3))]})
    if k == "optional":
        return norm_ty({"k": "union", "ts": [gen_type(rng, depth + 1), {"k": "none"}]})
    nf = rng.randint(0, 4)
    names = rng.sample(["a", "b", "c", "name", "items", "link"], nf)
    _syn_counter[0] += 1
    fields = []
    for nm in names:
        ft = gen_type(rng, depth + 1)
        fields.append([nm, ft, rng.random() < 0.4 and has_syn_default(ft)])
    # the class name is a function of the content, so that equal JSON <-> equal class
    body = json.dumps(fields, sort_keys=True)
    return {"k": "record", "name": "Syn" + core.hashlib.sha1(body.encode()).hexdigest()[:10], "fields": fields, "post": None}


# ----------------------------------------------------------------------------------------------
# values: conforming generation, node enumeration, mutation
# ----------------------------------------------------------------------------------------------

STRS = ["", "a", "info", "x y", "{+a+}", "%s", "http://x/%s", "é", "1", "true", "red", "lo", "string", "zz"]


def gen_any(rng, depth=0):
    k = rng.choice("nbifsld" if depth < 2 else "nbifs")
    if k == "n":
        return {"t": "n"}
    if k == "b":
        return {"t": "b", "v": rng.random() < 0.5}
    if k == "i":
        return {"t": "i", "v": str(rng.choice([0, 1, 2, 3, 10, -1, 7, 2 ** 70]))}
    if k == "f":
        return {"t": "f", "v": rng.choice(["1.5", "0.0", "inf", "-2.25", "1e+16"])}
    if k == "s":
        return {"t": "s", "v": rng.choice(STRS)}
    if k == "l":
        return {"t": "l", "v": [gen_any(rng, depth + 1) for _ in range(rng.randint(0, 3))]}
    keys = rng.sample(["a", "b", "name", "red", "lo", "k"], rng.randint(0, 3))
    return {"t": "d", "v": [[kk, gen_any(rng, depth + 1)] for kk in keys]}


def accepts_none(j):
    j = resolve_ref(j)
    return j["k"] in ("none", "any") or (j["k"] == "union" and any(accepts_none(t) for t in j["ts"]))


def gen_conf(j, rng, depth=0):
    """a value conforming to Ty JSON j (None if the type has no plain conforming value)"""
    j = resolve_ref(j)
    k = j["k"]
    if k == "str":
        return {"t": "s", "v": rng.choice(STRS)}
    if k == "int":
        return {"t": "b", "v": rng.random() < 0.5} if rng.random() < 0.15 else {"t": "i", "v": str(rng.choice([0, 1, 2, 5, -3, 10, 2 ** 65]))}
    if k == "float":
        return {"t": "f", "v": rng.choice(["1.5", "0.0", "inf", "-2.25", "1e+16", "nan"])}
    if k == "bool":
        return {"t": "b", "v": rng.random() < 0.5}
    if k == "none":
        return {"t": "n"}
    if k == "any":
        return gen_any(rng, depth)
    if k == "unsupported":
        return None
    if k == "enum":
        nm, v = rng.choice(j["members"])
        if v is not None and rng.random() < 0.3:
            return {"t": "i", "v": v}
        return {"t": "s", "v": nm}
    if k == "cls":
        return norm_val({"t": "o", "cls": [j["name"]]})
    if k in ("list", "set"):
        xs = [gen_conf(j["t"], rng, depth + 1) for _ in range(rng.randint(0, 2 if depth > 2 else 3))]
        return None if any(x is None for x in xs) else {"t": "l", "v": xs}
    if k == "dict":
        kj = resolve_ref(j["key"])
        if kj["k"] == "enum":
            keys = [m[0] for m in rng.sample(kj["members"], rng.randint(0, len(kj["members"])))]
        elif kj["k"] in ("str", "any"):
            keys = rng.sample(["a", "b", "k1", "mongodb:x", "é"], rng.randint(0, 3))
        else:
            keys = []
        out = []
        for kk in keys:
            x = gen_conf(j["val"], rng, depth + 1)
            if x is None:
                return None
            out.append([kk, x])
        return {"t": "d", "v": out}
    if k == "tuple":
        xs = [gen_conf(t, rng, depth + 1) for t in j["ts"]]
        return None if any(x is None for x in xs) else {"t": "l", "v": xs}
    if k == "union":
        for _ in range(4):
            x = gen_conf(rng.choice(j["ts"]), rng, depth + 1)
            if x is not None:
                return x
        return None
    if k == "record":
        items = []
        for nm, ft, d in j["fields"]:
            optional = d or accepts_none(ft)
            if optional and rng.random() < (0.55 if depth == 0 else 0.4):
                continue
            if j.get("post") == nm:
                x = {"t": "s", "v": rng.choice(["http://x/%s", "%s", "a%sb"])}
            else:
                x = gen_conf(ft, rng, depth + 1)
            if x is None:
                if optional:
                    continue
                return None
            items.append([nm, x])
        rng.shuffle(items)
        return {"t": "d", "v": items}
    raise ValueError(k)


def nodes_of(j, v, path=(), under_any=False, out=None):
    """(path, type JSON, flag) of every sub-value of conforming v reachable through typed positions.
    flag: True when an unknown key inserted here could legitimately be accepted."""
    if out is None:
        out = []
    j = resolve_ref(j)
    k = j["k"]
    if k == "union":
        # find the member the value was generated for (first structurally plausible one)
        loose = any(resolve_ref(t)["k"] in ("any", "dict", "cls", "tuple") for t in j["ts"])
        out.append((path, j, under_any or loose))
        for t in j["ts"]:
            if plausible(resolve_ref(t), v):
                nodes_of(t, v, path, under_any or loose, out)
                # drop the duplicate entry for the same path
                break
        return out
    out.append((path, j, under_any or k == "any"))
    if k in ("list", "set") and v["t"] == "l":
        for i, x in enumerate(v["v"]):
            nodes_of(j["t"], x, path + (i,), under_any, out)
    elif k == "tuple" and v["t"] == "l":
        for i, (x, t) in enumerate(zip(v["v"], j["ts"])):
            nodes_of(t, x, path + (i,), under_any, out)
    elif k == "dict" and v["t"] == "d":
        for i, (kk, x) in enumerate(v["v"]):
            nodes_of(j["val"], x, path + (i,), under_any, out)
    elif k == "record" and v["t"] == "d":
        ft = {nm: t for nm, t, d in j["fields"]}
        for i, (kk, x) in enumerate(v["v"]):
            if kk in ft:
                nodes_of(ft[kk], x, path + (i,), under_any, out)
    return out


def plausible(j, v):
    k, t = j["k"], v["t"]
    return ((k == "record" and t == "d") or (k == "dict" and t == "d") or (k in ("list", "set", "tuple") and t == "l")
            or (k == "str" and t == "s") or (k == "enum" and t in "si") or (k == "int" and t in "ib") or (k == "bool" and t == "b")
            or (k == "float" and t == "f") or (k == "none" and t == "n") or k == "any" or (k == "cls" and t == "o"))


def get_at(v, path):
    for i in path:
        v = v["v"][i]
        if isinstance(v, list):  # dict item [key, value]
            v = v[1]
    return v


def set_at(v, path, new):
    if not path:
        return new
    v = copy.deepcopy(v)
    cur = v
    for i in path[:-1]:
        cur = cur["v"][i]
        if isinstance(cur, list):
            cur = cur[1]
    last = cur["v"][path[-1]]
    if isinstance(last, list):
        last[1] = new
    else:
        cur["v"][path[-1]] = new
    return v


SWAPS = [
    {"t": "n"}, {"t": "b", "v": True}, {"t": "b", "v": False}, {"t": "i", "v": "1"}, {"t": "i", "v": "7"}, {"t": "f", "v": "1.5"},
    {"t": "s", "v": "zz"}, {"t": "s", "v": "ab"}, {"t": "s", "v": ""}, {"t": "l", "v": []}, {"t": "l", "v": [{"t": "s", "v": "zz"}]},
    {"t": "l", "v": [{"t": "i", "v": "1"}, {"t": "i", "v": "2"}]}, {"t": "d", "v": []}, {"t": "d", "v": [["zz", {"t": "i", "v": "1"}]]},
    {"t": "o", "cls": ["date"]},
]


def mutants_of(j, v, rng, limit):
    """single-point mutants of conforming value v: (value, tag, must_reject)"""
    nodes = nodes_of(j, v)
    out = []
    rng.shuffle(nodes)
    for path, tj, loose in nodes:
        cur = get_at(v, path)
        tk = tj["k"]
        sw = rng.choice(SWAPS)
        if sw["t"] != cur["t"] or rng.random() < 0.3:
            out.append((set_at(v, path, norm_val(sw)), f"swap:{tk}<-{sw['t']}", False))
        if tk == "record" and cur["t"] == "d":
            pos = rng.randint(0, len(cur["v"]))
            items = cur["v"][:pos] + [[UNKNOWN, rng.choice(SWAPS[:9])]] + cur["v"][pos:]
            out.append((set_at(v, path, {"t": "d", "v": items}), "unknown-field", not loose))
            if cur["v"]:
                i = rng.randrange(len(cur["v"]))
                out.append((set_at(v, path, {"t": "d", "v": cur["v"][:i] + cur["v"][i + 1:]}), "delete-field", False))
        if tk == "tuple" and cur["t"] == "l":
            out.append((set_at(v, path, {"t": "l", "v": cur["v"] + [{"t": "s", "v": "zz"}]}), "arity", False))
        if tk == "enum":
            out.append((set_at(v, path, rng.choice([{"t": "s", "v": "nope"}, {"t": "i", "v": "99"}, {"t": "b", "v": True}, {"t": "f", "v": "1.0"}])), "enum-bad", False))
        if len(out) >= limit:
            break
    return out[:limit]


# ----------------------------------------------------------------------------------------------
# independent conformance walk (direct oracle): object vs. typing.get_type_hints
# ----------------------------------------------------------------------------------------------

def conform(obj, ty, path="$", out=None, budget=None):
    if out is None:
        out = []
    if len(out) > 3:
        return out
    if ty is typing.Any or ty is object:
        return out
    origin = typing.get_origin(ty)
    args = typing.get_args(ty)
    if origin is typing.Union:
        if not any(not conform(obj, a, path, []) for a in args):
            out.append(f"{path}: {type(obj).__name__} value {obj!r:.60} fits no member of {ty}")
        return out
    if origin in (list, set, dict, tuple):
        if not isinstance(obj, origin):
            out.append(f"{path}: expected {origin.__name__}, got {type(obj).__name__} {obj!r:.60}")
            return out
        if origin is dict:
            for k, v in obj.items():
                conform(k, args[0], f"{path}.key({k!r:.20})", out)
                conform(v, args[1], f"{path}[{k!r:.20}]", out)
        elif origin is tuple:
            if len(obj) != len(args):
                out.append(f"{path}: tuple arity {len(obj)} != {len(args)}")
            else:
                for i, (x, a) in enumerate(zip(obj, args)):
                    conform(x, a, f"{path}[{i}]", out)
        else:
            for i, x in enumerate(obj):
                conform(x, args[0], f"{path}[{i}]", out)
        return out
    if origin is not None:
        return out  # other typing constructs: nothing can be returned for them
    if isinstance(ty, type):
        if not isinstance(obj, ty):
            out.append(f"{path}: expected {ty.__name__}, got {type(obj).__name__} {obj!r:.60}")
            return out
        if ty in flutter.CACHED_TYPES and dataclasses.is_dataclass(obj):
            hints = typing.get_type_hints(type(obj))
            for f in dataclasses.fields(obj):
                if not hasattr(obj, f.name):
                    out.append(f"{path}.{f.name}: attribute missing")
                else:
                    conform(getattr(obj, f.name), hints[f.name], f"{path}.{f.name}", out)
    return out


# ----------------------------------------------------------------------------------------------
# TOML text
# ----------------------------------------------------------------------------------------------

BARE = re.compile(r"^[A-Za-z0-9_-]+$")


def toml_key(k):
    return k if BARE.match(k) else json.dumps(k, ensure_ascii=False)


def toml_inline(o):
    if isinstance(o, bool):
        return "true" if o else "false"
    if isinstance(o, int):
        return str(o)
    if isinstance(o, float):
        r = repr(o)
        return r if ("." in r or "e" in r or "n" in r) else r + ".0"
    if isinstance(o, str):
        return json.dumps(o, ensure_ascii=False)
    if isinstance(o, list):
        return "[" + ", ".join(toml_inline(x) for x in o) + "]"
    if isinstance(o, dict):
        return "{" + ", ".join(f"{toml_key(k)} = {toml_inline(v)}" for k, v in o.items()) + "}"
    if isinstance(o, (datetime.date, datetime.datetime)):
        return o.isoformat()
    raise ValueError(f"no TOML form for {o!r}")


def toml_dump(d):
    """top-level scalars/arrays first, then [table] sections and [[array-of-tables]] sections"""
    head, tables = [], []
    for k, v in d.items():
        if isinstance(v, dict) and v:
            lines = [f"[{toml_key(k)}]"]
            for kk, vv in v.items():
                lines.append(f"{toml_key(kk)} = {toml_inline(vv)}")
            tables.append("\n".join(lines))
        elif isinstance(v, list) and v and all(isinstance(x, dict) and x for x in v):
            for x in v:
                lines = [f"[[{toml_key(k)}]]"]
                for kk, vv in x.items():
                    lines.append(f"{toml_key(kk)} = {toml_inline(vv)}")
                tables.append("\n".join(lines))
        else:
            head.append(f"{toml_key(k)} = {toml_inline(v)}")
    return "\n".join(head + [""] + tables) + "\n"


BASE_CONFIGS = [
    {"name": "docs", "title": "Docs"},
    {
        "name": "docs", "title": "MongoDB {+version+}", "default_domain": "mongodb", "eol": False, "fail_on_diagnostics": True,
        "canonical": "https://example.com/docs/", "source": "source", "silence_diagnostics": ["ExpectedPathArg"],
        "toc_landing_pages": ["/a", "/b"], "multi_page_tutorials": ["/t"], "intersphinx": [], "sharedinclude_root": "https://example.com/",
        "constants": {"version": "5.0", "major": 5, "ratio": 1.5, "full": "v{+version+}-{+major+}", "undefined-use": "{+nope+}"},
        "substitutions": {"product": "MongoDB", "v": "{+version+}"},
        "deprecated_versions": {"docs": ["v1", "v2"]},
        "page_groups": {"g1": ["/a", "/b"], "g2": []},
        "banners": [{"targets": ["index.txt", "a/*"], "variant": "warning", "value": "Heads up"}, {"targets": []}],
        "manpages": {"mongod": {"file": "mongod.txt", "title": "mongod", "section": 1}, "mongos": {"file": "s.txt", "title": "s", "section": 8}},
        "bundle": {"manpages": "manpages.tar.gz"},
        "data": {"source_page_template": "x", "assets": ["a", 1]},
        "associated_products": [{"name": "atlas", "versions": ["v1", "master"]}, {"name": "cli"}],
    },
    {
        "name": "x", "constants": {"a": 1}, "bundle": {}, "banners": [{"targets": ["*"], "value": "hi {+a+}"}],
        "associated_products": [{"name": "p", "versions": []}], "manpages": {"m": {"file": "f", "title": "t", "section": 5}},
    },
]

SWAP_PLAIN = [None, True, 3, 2.5, "zz", [], ["zz"], [1], {}, {"zz": 1}, [{"zz": 1}], datetime.date(2020, 1, 2)]


def plain_nodes(o, path=()):
    """paths of every value inside a plain config dict"""
    out = [path]
    if isinstance(o, dict):
        for k, v in o.items():
            out += plain_nodes(v, path + (k,))
    elif isinstance(o, list):
        for i, v in enumerate(o):
            out += plain_nodes(v, path + (i,))
    return out


def plain_set(o, path, new, delete=False):
    o = copy.deepcopy(o)
    cur = o
    for p in path[:-1]:
        cur = cur[p]
    if delete:
        del cur[path[-1]]
    else:
        cur[path[-1]] = new
    return o


def strip_none(o):
    if isinstance(o, dict):
        return {k: strip_none(v) for k, v in o.items() if v is not None}
    if isinstance(o, list):
        return [strip_none(x) for x in o if x is not None]
    return o


TOKEN = re.compile(r'"(?:\\.|[^"\\])*"|\[\[|\]\]|[\[\]{}=,]|[^\s\[\]{}=,"]+')


def text_damage(text, rng, count):
    toks = list(TOKEN.finditer(text))
    out = []
    picks = toks if count is None else rng.sample(toks, min(count, len(toks)))
    for m in picks:
        a, b = m.span()
        kind = rng.choice(["delete", "truncate", "replace", "dupchar", "cut-inside"])
        if kind == "delete":
            t = text[:a] + text[b:]
        elif kind == "truncate":
            t = text[:a]
        elif kind == "replace":
            t = text[:a] + rng.choice(["=", "[", "]", '"', "{", ",", "\\", "'''", "0x", "1979-05-27T", "\x00"]) + text[b:]
        elif kind == "dupchar":
            t = text[:a] + text[a] + text[a:]
        else:
            mid = (a + b + 1) // 2
            t = text[:mid]
        out.append((t, f"damage:{kind}"))
    return out


def dup_key_texts(text, rng):
    lines = text.split("\n")
    out = []
    idxs = [i for i, l in enumerate(lines) if re.match(r"^[A-Za-z0-9_\"-]+ = ", l)]
    for i in rng.sample(idxs, min(3, len(idxs))):
        out.append(("\n".join(lines[: i + 1] + [lines[i]] + lines[i + 1:]), "duplicate-key"))
    heads = [i for i, l in enumerate(lines) if re.match(r"^\[[^\[]", l)]
    for i in heads[:1]:
        out.append((text + "\n" + lines[i] + "\n", "duplicate-table"))
    return out


# ----------------------------------------------------------------------------------------------
# spec documents
# ----------------------------------------------------------------------------------------------

ARGTYPES = ["string", "integer", ["string", "integer"], "user_level", {"type": "string", "required": True}, {"type": ["path", "uri"]}, {"type": "flag", "required": False}]
ROLETYPES = ["text", "explicit_title", {"link": "https://x/%s"}, {"link": "https://y/%s", "ensure_trailing_slash": True, "format": ["strong"]},
             {"name": "label", "domain": "std", "tag": "t"}, {"name": "n", "format": ["emphasis", "monospace"]}]


def gen_spec_case(rng):
    cat = rng.choice(["directive", "directive", "role", "rstobject"])
    nkeys = rng.randint(1, 6)
    # "" is a legal TOML key and a legal parent name: falsy, so a truthiness test would skip it
    keys = rng.sample(["a", "b", "c", "d", "e", "f", "mongodb:g", "std:h", ""], nkeys)
    style = rng.choice(["acyclic", "acyclic", "any", "any", "chain"])
    entries = []
    for i, k in enumerate(keys):
        e = {}
        if style == "acyclic":
            if i > 0 and rng.random() < 0.7:
                e["inherit"] = rng.choice(keys[:i])
        elif style == "chain":
            if i > 0:
                e["inherit"] = keys[i - 1]
        else:
            r = rng.random()
            if r < 0.6:
                e["inherit"] = rng.choice(keys)
            elif r < 0.7:
                e["inherit"] = rng.choice(["ghost", ""])
        if rng.random() < 0.5:
            e["help"] = rng.choice(["h1", "h2", ""])
        if rng.random() < 0.3:
            e["deprecated"] = rng.random() < 0.5
        if rng.random() < 0.2:
            e["domain"] = rng.choice(["std", "landing"])
        if cat == "directive":
            if rng.random() < 0.4:
                e["example"] = "ex"
            if rng.random() < 0.4:
                e["content_type"] = rng.choice(["block", ["a", "b"], "list"])
            if rng.random() < 0.5:
                e["argument_type"] = rng.choice(ARGTYPES)
            if rng.random() < 0.5:
                e["options"] = {o: rng.choice(ARGTYPES) for o in rng.sample(["o1", "o2", "o3"], rng.randint(0, 2))}
            if rng.random() < 0.3:
                e["fields"] = [rng.choice(ARGTYPES[:4]) for _ in range(rng.randint(0, 2))]
            if rng.random() < 0.2:
                e["required_context"] = "ctx"
        elif cat == "role":
            if rng.random() < 0.4:
                e["example"] = "ex"
            if rng.random() < 0.6:
                e["type"] = rng.choice(ROLETYPES)
        else:
            if rng.random() < 0.4:
                e["prefix"] = rng.choice(["bin", ""])
            if rng.random() < 0.3:
                e["type"] = rng.choice(["plain", "callable", "cmdline_option"])
            if rng.random() < 0.4:
                e["options"] = {o: rng.choice(ARGTYPES) for o in rng.sample(["o1", "o2"], rng.randint(0, 2))}
            if rng.random() < 0.3:
                e["format"] = rng.sample(["strong", "monospace", "emphasis"], rng.randint(0, 2))
        entries.append([k, e])
    if style == "chain" and rng.random() < 0.5 and entries:
        # shuffle so that resolution order differs from dependency order
        rng.shuffle(entries)
    return {"kind": "spec", "category": cat, "entries": entries, "version": 0 if rng.random() < 0.95 else 1}


def spec_text(case):
    doc = {"meta": {"version": case["version"]}}
    lines = ["[meta]", f"version = {case['version']}", ""]
    for k, e in case["entries"]:
        lines.append(f"[{case['category']}.{toml_key(k)}]")
        for kk, vv in e.items():
            lines.append(f"{toml_key(kk)} = {toml_inline(vv)}")
        lines.append("")
    return "\n".join(lines)


def is_missing(v):
    return v is None or isinstance(v, (specparser.MissingDict, specparser.MissingList))


def abstract_entries(category):
    out = []
    for key, e in category.items():
        fs = []
        for f in dataclasses.fields(e):
            if f.name == "inherit":
                continue
            v = getattr(e, f.name)
            fs.append(None if is_missing(v) else f.name + "=" + json.dumps(canon(v), sort_keys=True, ensure_ascii=False))
        out.append({"key": key, "inherit": e.inherit, "fields": fs})
    return out


def pre_resolution(case):
    """what Spec.loads has in hand before _resolve_inheritance (check_type + name/domain assignment)"""
    root = flutter.check_type(specparser.Spec, tomli.loads(spec_text(case)))
    for section in (root.directive, root.role, root.rstobject):
        for key, value in section.items():
            domain, value.name = util.split_domain(key)
            if domain:
                value.domain = domain
    return root


# ----------------------------------------------------------------------------------------------
# running the implementation
# ----------------------------------------------------------------------------------------------

def exc_outcome(e):
    if isinstance(e, flutter.LoadError):
        r = {"out": "error", "err": type(e).__name__}
        if isinstance(e, flutter.LoadUnknownField):
            r["field"] = e.bad_field
        elif type(e) is flutter.LoadError:
            r["msg"] = str(e)
        return r
    if isinstance(e, ValueError) and str(e).startswith("Link definitions in rstspec.toml need to contain"):
        return {"out": "error", "err": "ValueError", "post": True}
    return {"out": "other", "exc": type(e).__name__, "msg": str(e)[:200]}


def diag_list(diags):
    return [[type(d).__name__, d.start[0], d.message[:160]] for d in diags]


class _Backend:
    def __init__(self):
        self.diags = {}

    def on_progress(self, *a, **k):
        pass

    def on_diagnostics(self, path, diagnostics):
        self.diags.setdefault(str(path), []).extend(diagnostics)

    def on_update(self, *a, **k):
        pass

    def on_update_metadata(self, *a, **k):
        pass

    def on_delete(self, *a, **k):
        pass

    def flush(self):
        pass

    def close(self):
        pass

    def __getattr__(self, name):
        if name.startswith("on_"):
            return lambda *a, **k: None
        raise AttributeError(name)


def parse_independent(text):
    """the harness' own view of the TOML text (tomli is trusted): table or decode-error line"""
    try:
        return {"table": to_val(tomli.loads(text))}
    except tomli.TOMLDecodeError as e:
        msg = str(e)
        m = re.search(r"\(at line ([0-9]+), column ([0-9]+)\)", msg)
        if m:
            return {"line": int(m.group(1))}
        return {"line": text.count("\n") + 1}
    except RecursionError:
        return {"line": 0, "recursion": True}


# ----------------------------------------------------------------------------------------------
# [constants] tables with arbitrary reference graphs
# ----------------------------------------------------------------------------------------------

CONST_KEYS = ["a", "b", "c", "base", "major", "ver-sion", "x_1", "é"]
CONST_LITS = ["", "v", "-", ".", "x y", "1", "{+", "+}", "{+ +}", "\u200b", "{+a", "b+}", "{", "+"]
PLACEHOLDER = re.compile(r"{\+([\w-]+)\+}")  # the documented placeholder syntax


def gen_const_case(rng):
    keys = rng.sample(CONST_KEYS, rng.randint(1, 6))
    pool = keys + ["nope"]
    entries = []
    for k in keys:
        r = rng.random()
        if r < 0.1:
            v = rng.choice([0, 7, -3, 1.5, 2.0, True])
        else:
            parts = []
            for _ in range(rng.randint(1, 4)):
                q = rng.random()
                if q < 0.55:
                    parts.append("{+" + rng.choice(pool) + "+}")
                elif q < 0.62:
                    parts.append("{+{+" + rng.choice(pool) + "+}+}")
                else:
                    parts.append(rng.choice(CONST_LITS))
            v = "".join(parts)
        entries.append([k, v])
    return {"kind": "const", "entries": entries, "via": "project" if rng.random() < 0.25 else "open"}


def const_text(case):
    return toml_dump({"name": "c", "constants": {k: v for k, v in case["entries"]}})


def segments(text):
    """source text -> [["lit", s] | ["ref", name]] with the implementation's own pattern"""
    out, pos = [], 0
    for m in stypes.PAT_VARIABLE.finditer(text):
        if m.start() > pos:
            out.append(["lit", text[pos:m.start()]])
        out.append(["ref", m.group(1)])
        pos = m.end()
    if pos < len(text):
        out.append(["lit", text[pos:]])
    return out


def undeclared_names(diags):
    out = []
    for d in diags:
        if d[0] == "ConstantNotDeclared":
            out.append(re.sub(r" not defined as a source constant$", "", d[2]))
    return out


def constants_problem(table, constants_raw, diags):
    """the property on the loaded [constants]: every value a string in which each placeholder of the source
    was expanded (replaced by the loaded value of the constant it names) or reported as ConstantNotDeclared
    (and blanked); nothing more is demanded (no particular order of declaration is imposed here)."""
    if not table:
        return None
    final = {k: sv for k, (tn, sv) in constants_raw.items()}
    reported = set(undeclared_names(diags))
    for k, src in table.items():
        if k not in constants_raw:
            return f"constant {k} lost while loading"
        tn, sv = constants_raw[k]
        if tn != "str":
            return f"constant {k} not rendered to a string ({tn})"
        src = str(src)

        def pattern(strict):
            pat, pos = "", 0
            for m in PLACEHOLDER.finditer(src):
                pat += re.escape(src[pos:m.start()])
                nm = m.group(1)
                alts = [re.escape(final[nm])] if nm in final else []
                if not strict or nm in reported:
                    alts.append("\u200b")  # blanked; under `strict` only if it was reported
                pat += "(?:" + "|".join(alts) + ")" if alts else "(?!)"
                pos = m.end()
            return pat + re.escape(src[pos:])

        # some reading of the loaded value must explain every placeholder: expanded, or blanked AND reported
        if re.fullmatch(pattern(True), sv, re.S) is None:
            if re.fullmatch(pattern(False), sv, re.S) is None:
                return (f"constant {k} = {src!r} loaded as {sv!r}: a placeholder was neither expanded to the loaded value of the "
                        f"constant it names nor blanked and reported")
            return f"constant {k} = {src!r} loaded as {sv!r}: a placeholder was blanked without a ConstantNotDeclared diagnostic (reported: {sorted(reported)})"
    return None


def missing_error_classes(case):
    """error classes the absent required fields of the top-level record can raise (set-order dependent)"""
    tj = resolve_ref(case["ty"])
    v = case["val"]
    if tj["k"] != "record" or v["t"] != "d":
        return []
    present = {k for k, _ in v["v"]}
    cls = py_type(case["ty"])
    hints = typing.get_type_hints(cls)
    out = []
    for nm, ft, d in tj["fields"]:
        if nm not in present and not d:
            try:
                flutter.check_type(hints[nm], None)
            except flutter.LoadError as e:
                out.append(type(e).__name__)
    return out if len(set(out)) > 1 else []


class C16(core.PropertyCheck):
    id = "C16"
    quick_budget = 3000
    thorough_budget = 12000
    rule = ("check_type: every declared @checked dataclass (Gen/Types.lean, by name) and random synthetic types (sent as JSON): generated conforming "
            "values + single-point mutants (kind swap n/b/i/f/s/l/d/obj at every typed position, unknown-field insertion, field deletion, arity, bad enum "
            "member) through the real flutter.check_type vs. the Lean `check` (outcome class, offending field, full result value); snooty.toml texts "
            "derived from 3 valid configurations by field deletion, kind swaps at every field incl. nested banner/manpage/bundle/associated-product "
            "tables, unknown-field insertion, duplicate keys/tables, token-level syntax damage, through ProjectConfig.open and Project(root, backend, {}) "
            "in a temp dir vs. `openConfig`; spec documents with random inherit graphs (acyclic, chains, cycles, ghosts) through Spec.loads vs. "
            "`resolveCategory`; [constants] tables with random reference graphs (backward, forward, self, undefined, nested braces, non-string values) "
            "through ProjectConfig.open / Project(...) vs. `Constants.render`. non-trivial = distinct case content whose implementation outcome is not a driver error")
    assumptions = [
        "tomli returns plain dict/list/str/int/float/bool/date-time values or raises TOMLDecodeError (the harness parses each text itself to feed the glue model)",
        "opaque objects (Path, datetime…) matter to check_type only through the class names of their MRO and are not collections",
        "Python set order of `missing` keys only influences which of several errors is raised; cases compare error classes, and no declared class has two required fields whose absence raises different classes",
        "default values are not checked by check_type; that every declared default conforms to its field type is checked on the running Python (static obligation)",
        "which substrings of a constant are placeholders is decided by the implementation's regex (Unicode \\w); the model works on the segments; validate_data is outside the Lean model (data-field diagnostics via Spec.get().data_fields)",
    ]
    extra_trusted = ["the translator gen_tables (harness/props/c16.py) that writes lean/SnootyVerif/Gen/Types.lean from typing.get_type_hints / dataclasses.fields"]

    # ---- translator ----
    def gen_tables(self):
        problems = []
        try:
            text, _ = render_gen()
        except Untranslatable as e:
            return [f"Gen/Types.lean: {e}"]
        GEN_FILE.parent.mkdir(exist_ok=True)
        if not GEN_FILE.exists() or GEN_FILE.read_text() != text:
            GEN_FILE.write_text(text)
        return problems

    # ---- the specification in force changes between two configurations of one process ----
    def extra_checks(self, tier, rng):
        import subprocess
        import threading
        helper = Path(__file__).resolve().parent.parent / "impl" / "c16_specswitch.py"
        default = list(specparser.Spec.get().data_fields)
        pool = sorted(set(default) | {"zeta_field", "omega_field"})
        seqs = []
        for _ in range(8 if tier == "quick" else 60):
            steps = []
            for i in range(rng.randint(2, 4)):
                fields = None if (i == 0 and rng.random() < 0.7) or rng.random() < 0.3 else rng.sample(pool, rng.randint(0, 3))
                steps.append({"spec_fields": fields, "data": {k: "v" for k in rng.sample(pool, rng.randint(1, 3))}})
            seqs.append(steps)
        results = [None] * len(seqs)

        def work(i):
            try:
                env = dict(os.environ, PYTHONPATH=str(core.REPO))
                p = subprocess.run([sys.executable, str(helper)], input=json.dumps({"steps": seqs[i]}), env=env, stdout=subprocess.PIPE,
                                   stderr=subprocess.PIPE, text=True, timeout=300, cwd=str(core.REPO))
                results[i] = json.loads(p.stdout)["rows"] if p.returncode == 0 else ("exc", p.stderr[-400:])
            except Exception as e:
                results[i] = ("exc", str(e))

        threads = [threading.Thread(target=work, args=(i,)) for i in range(len(seqs))]
        for t in threads:
            t.start()
        for t in threads:
            t.join()
        viol, opened, switches = [], 0, 0
        for steps, rows in zip(seqs, results):
            if isinstance(rows, tuple):
                raise core.Infra(f"spec-switch helper failed: {rows[1]}")
            force = default
            for k, (st, row) in enumerate(zip(steps, rows)):
                if st["spec_fields"] is not None:
                    force = st["spec_fields"]
                    switches += 1
                opened += 1
                want = sorted(x for x in st["data"] if x not in force)
                if row["exc"] or row["refused"] != want or row["in_force"] != force:
                    viol.append({"case": {"kind": "spec-switch", "steps": steps[: k + 1]},
                                 "desc": (f"spec-switch: configuration number {k + 1} of one process, opened with data_fields {force} in force and [data] keys "
                                          f"{sorted(st['data'])}: refused {row['refused']} (exc {row['exc']}), expected {want}"),
                                 "key": "spec-switch"})
                    break
            if viol:
                break
        return viol, {"specification_changes_between_opens": {"sequences": len(seqs), "configurations_opened": opened, "specifications_put_in_force": switches,
                                                              "what": "Spec.initialize with other data_fields between ProjectConfig.open calls of one process; [data] keys are judged by the specification in force"}}

    def static_obligations(self):
        bad = []
        for name, (cls, _) in declared().items():
            hints = typing.get_type_hints(cls)
            for f in dataclasses.fields(cls):
                if f.default_factory is not dataclasses.MISSING:
                    val = f.default_factory()
                elif f.default is not dataclasses.MISSING:
                    val = f.default
                else:
                    continue
                p = conform(val, hints[f.name], f"{name}.{f.name}")
                if p:
                    bad.append(p[0])
        dup = [c for c in declared() if sum(1 for f in dataclasses.fields(declared()[c][0]) if f.name == UNKNOWN)]
        # fields whose absence raises: all of them must raise the same class (set-order independence)
        mixed = []
        for name, (cls, j) in declared().items():
            classes = set()
            for nm, ft, d in j["fields"]:
                if not d:
                    try:
                        flutter.check_type(typing.get_type_hints(cls)[nm], None)
                    except flutter.LoadError as e:
                        classes.add(type(e).__name__)
            if len(classes) > 1 and name != "ProjectConfig":
                mixed.append(name)
        return [
            ("every default / default_factory value of the declared checked dataclasses conforms to its field type", not bad, "; ".join(bad[:3])),
            (f"no declared class has a field named {UNKNOWN}", not dup, str(dup)),
            ("absent required fields of one class raise one LoadError class (independent of set order)", not mixed, str(mixed)),
        ]

    # ---- cases ----
    def generate(self, rng, budget, tier):
        decl = declared()
        names = sorted(decl)
        # 1. check_type on declared types
        n_ct = budget
        for i in range(n_ct):
            name = names[i % len(names)] if i < 4 * len(names) else rng.choice(names + ["ProjectConfig", "Spec", "Directive", "Role"])
            tyj = {"k": "ref", "name": name}
            v = gen_conf(tyj, rng)
            if v is None:
                continue
            yield {"kind": "ct", "ty": tyj, "val": v, "tag": "conforming"}
            for mv, tag, must in mutants_of(tyj, v, rng, 4):
                yield {"kind": "ct", "ty": tyj, "val": mv, "tag": tag, "must_reject": must}
        # 2. synthetic types
        for i in range(budget // 2):
            tyj = gen_type(rng)
            v = gen_conf(tyj, rng)
            if v is None or rng.random() < 0.15:
                yield {"kind": "ct", "ty": tyj, "val": gen_any(rng), "tag": "arbitrary"}
                continue
            yield {"kind": "ct", "ty": tyj, "val": v, "tag": "conforming"}
            for mv, tag, must in mutants_of(tyj, v, rng, 3):
                yield {"kind": "ct", "ty": tyj, "val": mv, "tag": tag, "must_reject": must}
        # 3. TOML texts
        toml_cases = []
        for bi, base in enumerate(BASE_CONFIGS):
            text = toml_dump(base)
            toml_cases.append((text, "valid", False))
            paths = [p for p in plain_nodes(base) if p]
            for p in paths:
                toml_cases.append((toml_dump(plain_set(base, p, None, delete=True)), "delete:" + ".".join(map(str, p)), False))
                swaps = SWAP_PLAIN if tier == "thorough" else rng.sample(SWAP_PLAIN, 3)
                for sv in swaps:
                    if sv is None:
                        continue
                    try:
                        toml_cases.append((toml_dump(strip_none(plain_set(base, p, sv))), f"swap:{'.'.join(map(str, p))}<-{type(sv).__name__}", False))
                    except ValueError:
                        pass
            # unknown fields at every table
            for p in plain_nodes(base):
                cur = base
                for s in p:
                    cur = cur[s]
                if isinstance(cur, dict):
                    under_any = bool(p) and p[0] in ("data", "constants", "substitutions", "deprecated_versions", "page_groups", "manpages") and len(p) == 1
                    under_any = under_any or (bool(p) and p[0] == "data")
                    new = plain_set(base, p + (UNKNOWN,), rng.choice([1, "x", True, [1]]))
                    toml_cases.append((toml_dump(new), "unknown-field:" + ".".join(map(str, p)), not under_any))
            for t, tag in dup_key_texts(text, rng):
                toml_cases.append((t, tag, True))
            for t, tag in text_damage(text, rng, None if tier == "thorough" else 25):
                toml_cases.append((t, tag, False))
        if tier == "search":
            rng.shuffle(toml_cases)
        for i, (text, tag, must) in enumerate(toml_cases):
            via = "project" if (i % 2 == 0 or tag in ("valid",) or tag.startswith("duplicate")) else "open"
            yield {"kind": "toml", "text": text, "tag": tag, "via": via, "must_reject": must}
        # random multi-point TOML
        for _ in range(budget // 10):
            v = gen_conf({"k": "ref", "name": "ProjectConfig"}, rng)
            d = from_val(v)
            d.pop("root", None)
            d.pop("banner_nodes", None)
            d.pop("substitution_nodes", None)
            d["intersphinx"] = []
            try:
                text = toml_dump(strip_none(d))
            except ValueError:
                continue
            yield {"kind": "toml", "text": text, "tag": "random-valid", "via": rng.choice(["open", "project"]), "must_reject": False}
            for t, tag in text_damage(text, rng, 2):
                yield {"kind": "toml", "text": t, "tag": tag, "via": "open", "must_reject": False}
        # snooty.toml as the file system may hold it: bytes that are not UTF-8, a number too long for the interpreter's integer
        # conversion, brackets nested beyond the recursion limit, a directory or a dangling link under that name
        if tier != "search":
            raws = [("not-utf8", b'name = "\xff"\n'), ("not-utf8-tail", b'name = "x"\ntitle = "\xc3"\n'), ("bom-utf16", 'name = "x"\n'.encode("utf-16")),
                    ("nul", b'name = "x"\x00\n'), ("huge-int", b'name = "x"\n[constants]\na = ' + b"9" * 5000 + b"\n"),
                    ("deep-array", b'name = "x"\n[data]\na = ' + b"[" * 3000 + b"]" * 3000 + b"\n"), ("deep-table", b'name = "x"\n[data]\na = ' + b"{b = " * 1500 + b"1" + b"}" * 1500 + b"\n"),
                    ("empty", b""), ("only-cr", b"\r\r\r")]
            for tag, raw in raws:
                for via in ("open", "project"):
                    yield {"kind": "tomlraw", "tag": tag, "hex": raw.hex(), "via": via}
            for shape in ("dir", "dangling", "selflink"):
                for via in ("open", "project"):
                    yield {"kind": "tomlraw", "tag": shape, "shape": shape, "via": via}
            # a broken snooty.toml in the directory that is opened, a valid one in the directory above it: the problem of the
            # file that was asked for has to be reported - not the other project opened in silence
            for tag, inner in (("inner-wrong-type", 'name = 5\n'), ("inner-syntax", 'name = "x\n'), ("inner-unknown-field", 'name = "x"\nno_such_field = 1\n')):
                for via in ("open", "project"):
                    yield {"kind": "tomlraw", "tag": tag, "shape": "inner", "inner": inner, "via": via}
            # a project that silences the very class its configuration errors are reported with: the configuration is refused
            # all the same (a field that is not permitted does not become permitted by not talking about it)
            for tag, body in (("silenced-unknown-data-field", 'name = "x"\nsilence_diagnostics = ["UnmarshallingError"]\n[data]\nno_such_data_field = 1\n'),
                              ("silenced-unknown-field", 'name = "x"\nsilence_diagnostics = ["UnmarshallingError"]\nno_such_field = 1\n'),
                              ("silenced-wrong-type", 'name = "x"\nsilence_diagnostics = ["UnmarshallingError"]\ntitle = 5\n')):
                yield {"kind": "tomlraw", "tag": tag, "hex": body.encode("utf-8").hex(), "via": "project", "must_refuse": True}
        # 3b. facets.toml: the other configuration file of a project (read by the postprocessor through
        #     ProjectConfig.load_facets_from_file): well-formed documents, every malformed shape, and text damage
        from impl import c02disk
        for name, doc in sorted(c02disk.FACETS.items()):
            yield {"kind": "facets", "tag": name, "hex": (doc if isinstance(doc, bytes) else doc.encode("utf-8")).hex()}
        for _ in range(max(20, budget // 20)):
            base = c02disk.FACETS[rng.choice(["good", "good-sub", "unknown-value"])]
            for t, tag in text_damage(base, rng, 2):
                yield {"kind": "facets", "tag": "damaged:" + tag, "hex": t.encode("utf-8", "surrogatepass").hex()}
        # 4. spec documents
        for _ in range(budget // 2):
            yield gen_spec_case(rng)
        # 5. [constants] tables: forward / backward / self / undefined references, nested braces, non-strings
        for _ in range(budget // 3):
            yield gen_const_case(rng)

    def shrink_candidates(self, case):
        if case["kind"] == "ct":
            v = case["val"]
            if v["t"] in ("l", "d"):
                for i in range(len(v["v"])):
                    yield {**case, "val": {"t": v["t"], "v": v["v"][:i] + v["v"][i + 1:]}}
                for i, x in enumerate(v["v"]):
                    inner = x[1] if v["t"] == "d" else x
                    if inner["t"] in ("l", "d"):
                        for j in range(len(inner["v"])):
                            ni = {"t": inner["t"], "v": inner["v"][:j] + inner["v"][j + 1:]}
                            nv = copy.deepcopy(v)
                            if v["t"] == "d":
                                nv["v"][i][1] = ni
                            else:
                                nv["v"][i] = ni
                            yield {**case, "val": nv}
        elif case["kind"] == "toml":
            lines = case["text"].split("\n")
            for i in range(len(lines)):
                yield {**case, "text": "\n".join(lines[:i] + lines[i + 1:])}
        elif case["kind"] == "const":
            es = case["entries"]
            for i in range(len(es)):
                yield {**case, "entries": es[:i] + es[i + 1:]}
            for i, (k, v) in enumerate(es):
                if isinstance(v, str):
                    segs = segments(v)
                    for j in range(len(segs)):
                        nv = "".join(("{+" + t + "+}") if kind == "ref" else t for kind, t in segs[:j] + segs[j + 1:])
                        yield {**case, "entries": es[:i] + [[k, nv]] + es[i + 1:]}
            if case["via"] != "open":
                yield {**case, "via": "open"}
        elif case["kind"] == "spec":
            es = case["entries"]
            for i in range(len(es)):
                yield {**case, "entries": es[:i] + es[i + 1:]}
            for i, (k, e) in enumerate(es):
                for f in e:
                    if f != "inherit":
                        ne = {a: b for a, b in e.items() if a != f}
                        yield {**case, "entries": es[:i] + [[k, ne]] + es[i + 1:]}

    # ---- implementation ----
    def run_impl(self, case):
        kind = case["kind"]
        if kind == "const":
            return self.run_impl({"kind": "toml", "text": const_text(case), "via": case["via"], "tag": "constants"})
        if kind == "ct":
            ty = py_type(case["ty"])
            data = from_val(case["val"])
            try:
                res = flutter.check_type(ty, data)
            except Exception as e:
                return exc_outcome(e)
            return {"out": "ok", "val": canon(res), "conform": conform(res, ty)}
        if kind == "facets":
            with tempfile.TemporaryDirectory(prefix="c16f-") as d:
                path = Path(d).resolve() / "facets.toml"
                path.write_bytes(bytes.fromhex(case["hex"]))
                try:
                    facets, diags = stypes.ProjectConfig.load_facets_from_file(path)
                except Exception as e:
                    return {"out": "other", "exc": type(e).__name__, "msg": str(e)[:200], "stage": "facets"}
                shape = isinstance(facets, list) and all(isinstance(f, stypes.Facet) and isinstance(f.category, str) and isinstance(f.value, str) for f in facets)
                return {"out": "ok", "n": len(facets) if isinstance(facets, list) else -1, "shape": shape,
                        "diags": [[type(x).__name__, 0, x.message[:120]] for x in diags]}
        if kind in ("toml", "tomlraw"):
            with tempfile.TemporaryDirectory(prefix="c16-") as d:
                root = Path(d).resolve()
                if kind == "toml":
                    root.joinpath("snooty.toml").write_text(case["text"], encoding="utf-8")
                elif case.get("shape") == "dir":
                    root.joinpath("snooty.toml").mkdir()
                elif case.get("shape") == "dangling":
                    os.symlink("nowhere.toml", root / "snooty.toml")
                elif case.get("shape") == "selflink":
                    os.symlink("snooty.toml", root / "snooty.toml")
                elif case.get("shape") == "inner":
                    root.joinpath("snooty.toml").write_text('name = "outer"\n', encoding="utf-8")
                    root = root / "inner"
                    root.mkdir()
                    root.joinpath("snooty.toml").write_text(case["inner"], encoding="utf-8")
                else:
                    root.joinpath("snooty.toml").write_bytes(bytes.fromhex(case["hex"]))
                if case["via"] == "open":
                    try:
                        cfg, diags = stypes.ProjectConfig.open(root)
                    except Exception as e:
                        return {"out": "other", "exc": type(e).__name__, "msg": str(e)[:200]}
                    return self._cfg_result(cfg, diags, root)
                from snooty.parser import Project, ProjectLoadError
                backend = _Backend()
                try:
                    project = Project(root, backend, {})
                except ProjectLoadError:
                    ds = backend.diags.get("snooty.toml", [])
                    return {"out": "ProjectLoadError", "diags": diag_list(ds), "all_paths": sorted(backend.diags)}
                except Exception as e:
                    stage = "config"
                    try:
                        stypes.ProjectConfig.open(root)
                        stage = "after-config"
                    except Exception:
                        pass
                    return {"out": "other", "exc": type(e).__name__, "msg": str(e)[:200], "stage": stage}
                cfg = project.config
                ds = [x for v in backend.diags.values() for x in v]
                return self._cfg_result(cfg, ds, root)
        if kind == "spec":
            text = spec_text(case)
            try:
                spec = specparser.Spec.loads(text)
            except ValueError as e:
                if isinstance(e, tomli.TOMLDecodeError):
                    return {"out": "other", "exc": "TOMLDecodeError(harness produced bad TOML)", "msg": str(e)}
                msg = str(e)
                m = re.match(r"Inheritance cycle detected while resolving (.*)$", msg)
                if m:
                    return {"out": "cycle", "key": m.group(1)}
                m = re.match(r"Cannot inherit from non-existent directive (.*)$", msg)
                if m:
                    return {"out": "missing", "key": m.group(1)}
                if msg.startswith("Unknown spec version"):
                    return {"out": "version"}
                return {"out": "other", "exc": type(e).__name__, "msg": msg[:200]}
            except flutter.LoadError as e:
                return exc_outcome(e)
            except BaseException as e:
                return {"out": "other", "exc": type(e).__name__, "msg": str(e)[:200]}
            try:
                pre = abstract_entries(getattr(pre_resolution(case), case["category"]))
            except Exception:
                pre = None
            return {"out": "ok", "entries": abstract_entries(getattr(spec, case["category"])), "pre": pre,
                    "conform": conform(spec, specparser.Spec),
                    "required_options": self._required_options_problems(spec)}
        raise ValueError(kind)

    @staticmethod
    def _required_options_problems(spec):
        out = []
        for k, d in spec.directive.items():
            want = frozenset(o for o, v in d.options.items() if getattr(v, "required", False) is True or (isinstance(v, dict) and v.get("required") is True))
            if d.required_options != want:
                out.append(f"directive {k}: required_options {sorted(d.required_options)} but options requiring a value are {sorted(want)}")
        return out

    def _cfg_result(self, cfg, diags, root):
        c = canon(cfg)
        # hide run-dependent / post-load members
        fields = [[k, v] for k, v in c["fields"] if k not in ("root", "banner_nodes", "substitution_nodes")]
        return {"out": "returned", "cfg": {"t": "r", "name": c["name"], "fields": fields},
                "root_ok": cfg.root == root, "diags": diag_list(diags),
                "conform": conform(cfg, stypes.ProjectConfig),
                "constants_raw": {k: [type(v).__name__, str(v)] for k, v in cfg.constants.items()}}

    # ---- model ----
    def model_request(self, case):
        kind = case["kind"]
        if kind == "ct":
            return {"op": "c16.check", "ty": case["ty"], "val": case["val"]}
        if kind == "toml":
            parsed = parse_independent(case["text"])
            if parsed.get("recursion"):
                return None
            return {"op": "c16.open", "ty": {"k": "ref", "name": "ProjectConfig"}, "root": [c.__name__ for c in type(Path("/")).__mro__],
                    "parsed": parsed}
        if kind == "const":
            return {"op": "c16.constants", "table": [[k, segments(str(v))] for k, v in case["entries"]]}
        if kind == "spec":
            if case["version"] != 0:
                return None
            try:
                root = pre_resolution(case)
            except Exception:
                return None
            return {"op": "c16.resolve", "entries": abstract_entries(getattr(root, case["category"]))}
        return None

    def compare(self, case, model, impl):
        kind = case["kind"]
        if kind == "const":
            if impl["out"] != "returned":
                return f"constants table not loaded: {json.dumps(impl, ensure_ascii=False)[:200]}"
            got = [[k, sv] for k, (tn, sv) in impl["constants_raw"].items()]
            if got != model["constants"]:
                return f"rendered constants: model {model['constants']} impl {got}"
            names = undeclared_names(impl["diags"])
            if names != model["diags"]:
                return f"ConstantNotDeclared diagnostics: model {model['diags']} impl {names}"
            return None
        if kind == "ct":
            if model["out"] == "ok":
                py_type(case["ty"])
                if impl["out"] != "ok":
                    return f"model accepts, implementation: {impl}"
                want = model_to_canon(model["val"], default_of)
                if want != impl["val"]:
                    return f"result differs: model {json.dumps(want, ensure_ascii=False)[:300]} impl {json.dumps(impl['val'], ensure_ascii=False)[:300]}"
                return None
            if impl["out"] != "error":
                return f"model raises {model['err']}, implementation: {json.dumps(impl, ensure_ascii=False)[:200]}"
            if impl["err"] != model["err"]:
                if {impl["err"], model["err"]} <= set(missing_error_classes(case)):
                    return None  # several required fields absent: which one raises first depends on set order
                return f"error class: model {model['err']} impl {impl['err']}"
            if model.get("field") != impl.get("field"):
                return f"offending field: model {model.get('field')} impl {impl.get('field')}"
            if "msg" in model and model["msg"] != impl.get("msg"):
                return f"LoadError message: model {model['msg']} impl {impl.get('msg')}"
            return None
        if kind == "toml":
            exp = self._expected_open(case, model)
            got = self._observed_open(impl)
            if exp != got:
                return f"open outcome: model {json.dumps(exp, ensure_ascii=False)[:300]} impl {json.dumps(got, ensure_ascii=False)[:300]}"
            return None
        if kind == "spec":
            if model["out"] != impl["out"]:
                return f"resolve outcome: model {model} impl {json.dumps(impl, ensure_ascii=False)[:200]}"
            if model["out"] in ("cycle", "missing") and model["key"] != impl["key"]:
                return f"reported key: model {model['key']} impl {impl['key']}"
            if model["out"] == "ok" and model["entries"] != impl["entries"]:
                for a, b in zip(model["entries"], impl["entries"]):
                    if a != b:
                        return f"resolved entry differs: model {a} impl {b}"
                return "resolved entries differ in number"
            return None

    def _expected_open(self, case, model):
        via = case["via"]
        if model["out"] == "raised":
            return {"out": "other"}
        if model["out"] == "diag":
            if via == "project":
                return {"out": "ProjectLoadError", "lines": [model["line"]]}
            return {"out": "fallback", "lines": [model["line"]]}
        cfg = model_to_canon(model["val"], default_of)
        fields = {k: v for k, v in cfg["fields"] if k not in ("root", "banner_nodes", "substitution_nodes", "constants")}
        data_keys = []
        for k, v in cfg["fields"]:
            if k == "data" and v["t"] == "d":
                data_keys = [kk["v"] for kk, _ in v["v"]]
        permitted = specparser.Spec.get().data_fields
        nbad = sum(1 for k in data_keys if k not in permitted)
        if via == "project" and nbad:
            return {"out": "ProjectLoadError", "lines": [0] * nbad}
        return {"out": "loaded", "fields": fields, "bad_data_fields": nbad}

    def _observed_open(self, impl):
        if impl["out"] == "other":
            return {"out": "other"}
        if impl["out"] == "ProjectLoadError":
            return {"out": "ProjectLoadError", "lines": [d[1] for d in impl["diags"] if d[0] == "UnmarshallingError"]}
        um = [d for d in impl["diags"] if d[0] == "UnmarshallingError"]
        load_fail = [d for d in um if not d[2].startswith('Unmarshalling Error: Data field "')]
        if load_fail:
            return {"out": "fallback", "lines": [d[1] for d in load_fail]}
        fields = {k: v for k, v in impl["cfg"]["fields"] if k != "constants"}
        return {"out": "loaded", "fields": fields, "bad_data_fields": len(um)}

    # ---- direct oracle ----
    def oracle(self, case, impl):
        kind = case["kind"]
        if kind == "ct":
            if impl["out"] == "other":
                return f"check_type raised {impl['exc']} ({impl['msg']}) instead of a LoadError"
            if impl["out"] == "ok":
                if impl["conform"]:
                    return f"check_type returned a value not of the declared type: {impl['conform'][0]}"
                if case.get("must_reject"):
                    return f"check_type accepted a mapping with the undeclared field {UNKNOWN}"
            return None
        if kind == "facets":
            if impl["out"] == "other":
                return f"loading facets.toml raised {impl['exc']} ({impl['msg']}) instead of reporting a configuration diagnostic"
            if not impl["shape"]:
                return "load_facets_from_file returned something that is not a list of Facet(category: str, value: str)"
            if case["tag"] in ("not-toml", "no-facets-key", "facets-not-a-list", "entry-missing-value", "sub-facets-not-a-list", "not-utf8") and not impl["diags"]:
                return f"malformed facets.toml ({case['tag']}) accepted without a diagnostic"
            return None
        if kind == "tomlraw":
            if impl["out"] == "other":
                return f"opening the project raised {impl['exc']} at stage {impl.get('stage', 'config')} ({impl['msg']}) instead of reporting a configuration diagnostic [snooty.toml: {case['tag']}]"
            if case.get("must_refuse") and impl["out"] != "ProjectLoadError":
                return f"a configuration that is refused without it was opened because it silences UnmarshallingError [snooty.toml: {case['tag']}]"
            if case.get("shape") == "inner" and impl["out"] != "ProjectLoadError" and not [d for d in impl.get("diags", []) if d[0] == "UnmarshallingError"]:
                return (f"the snooty.toml of the directory that was opened is broken ({case['tag']}) but nothing was reported: the configuration of the "
                        f"directory above it was opened in its place")
            return None
        if kind == "toml":
            if impl["out"] == "other":
                return f"opening the project raised {impl['exc']} at stage {impl.get('stage', 'config')} ({impl['msg']}) instead of reporting a configuration diagnostic"
            if impl["out"] == "ProjectLoadError":
                um = [d for d in impl["diags"] if d[0] == "UnmarshallingError"]
                if not um:
                    return "ProjectLoadError without an UnmarshallingError diagnostic for snooty.toml"
                if case["tag"].startswith("unknown-field") and case.get("must_reject") and not any(UNKNOWN in d[2] for d in um):
                    return f"diagnostic does not name the offending field {UNKNOWN}: {um}"
                return None
            um = [d for d in impl["diags"] if d[0] == "UnmarshallingError"]
            if impl["conform"]:
                return f"returned configuration has a field not of its declared type: {impl['conform'][0]}"
            if not impl["root_ok"]:
                return "returned configuration has a foreign root"
            if case.get("must_reject") and not um:
                return f"configuration with {case['tag']} accepted without diagnostic"
            if case["tag"].startswith("unknown-field") and case.get("must_reject") and not any(UNKNOWN in d[2] for d in um):
                return f"diagnostic does not name the offending field {UNKNOWN}: {um}"
            parsed = parse_independent(case["text"])
            if "line" in parsed and not um:
                return "TOML text that does not parse was accepted without diagnostic"
            if not um:
                table = from_val(parsed["table"]).get("constants", {}) if "table" in parsed else {}
                if isinstance(table, dict):
                    return constants_problem(table, impl["constants_raw"], impl["diags"])
            return None
        if kind == "const":
            if impl["out"] == "other":
                return f"opening the project raised {impl['exc']} at stage {impl.get('stage', 'config')} ({impl['msg']}) instead of reporting a configuration diagnostic"
            if impl["out"] != "returned" or any(d[0] == "UnmarshallingError" for d in impl["diags"]):
                return f"well-typed [constants] table rejected: {json.dumps(impl, ensure_ascii=False)[:200]}"
            if impl["conform"]:
                return f"returned configuration has a field not of its declared type: {impl['conform'][0]}"
            return constants_problem({k: v for k, v in case["entries"]}, impl["constants_raw"], impl["diags"])
        if kind == "spec":
            if impl["out"] == "other":
                return f"Spec.loads raised {impl['exc']} ({impl['msg']}) instead of a load error"
            if impl["out"] == "ok":
                if impl["conform"]:
                    return f"loaded spec has a field not of its declared type: {impl['conform'][0]}"
                if impl["required_options"]:
                    return f"loaded spec inconsistent: {impl['required_options'][0]}"
                # merge: own set fields win, unset ones come from the resolved parent
                if impl.get("pre"):
                    post = {e["key"]: e for e in impl["entries"]}
                    for e in impl["pre"]:
                        got = post[e["key"]]
                        if got["inherit"] != e["inherit"]:
                            return f"inherit of {e['key']} changed by resolution"
                        if e["inherit"] is not None and e["inherit"] not in post:
                            return f"entry {e['key']!r} inherits from {e['inherit']!r}, which does not exist, but the spec was accepted"
                        for i, own in enumerate(e["fields"]):
                            want = own if (own is not None or e["inherit"] is None) else post[e["inherit"]]["fields"][i]
                            if got["fields"][i] != want:
                                return f"entry {e['key']}: field #{i} is {got['fields'][i]} after resolution, expected {want} (own value over resolved parent's)"
                # independent check of the inherit graph: a successfully loaded category is acyclic and closed
                ents = {k: e.get("inherit") for k, e in case["entries"]}
                for k in ents:
                    seen, cur = set(), k
                    while cur is not None:
                        if cur in seen:
                            return f"inheritance cycle through {cur} was accepted"
                        if cur not in ents:
                            return f"missing parent {cur} was accepted"
                        seen.add(cur)
                        cur = ents[cur]
            elif impl["out"] in ("cycle", "missing"):
                ents = {k: e.get("inherit") for k, e in case["entries"]}
                bad = False
                for k in ents:
                    seen, cur = set(), k
                    while cur is not None:
                        if cur in seen or cur not in ents:
                            bad = True
                            break
                        seen.add(cur)
                        cur = ents[cur]
                if not bad:
                    return f"sound inheritance graph rejected: {impl}"
            return None

    def finding_key(self, case, impl, desc):
        if desc.startswith("constant "):
            what = ("blanked without diagnostic" if "without a ConstantNotDeclared" in desc else
                    "placeholder neither expanded nor reported" if "neither expanded" in desc else
                    re.sub(r"^constant \S+ ", "", desc)[:60])
            return f"{case['kind']}:constants:{what}"
        d = re.sub(r"\(.*", "", desc)
        d = re.sub(r":.*", "", d)
        return f"{case['kind']}:{d.strip()[:80]}"

    def nontrivial_key(self, case, impl):
        if impl.get("out") == "other":
            return None
        return json.dumps(case, sort_keys=True, ensure_ascii=False)

    def branch_tags(self, case, model, impl):
        tags = [case["kind"], f"{case['kind']}:{impl.get('out')}"]
        if case["kind"] == "ct":
            tags.append("tag:" + case["tag"].split(":")[0])
            if impl.get("out") == "error":
                tags.append("err:" + impl["err"] + (":" + impl["msg"] if "msg" in impl else ""))
            tags.append("type:" + (case["ty"].get("name", "") if case["ty"]["k"] == "ref" else "synthetic"))
        elif case["kind"] == "const":
            keys = [k for k, _ in case["entries"]]
            for i, (k, v) in enumerate(case["entries"]):
                for kind_, nm in (segments(str(v)) if isinstance(v, str) else []):
                    if kind_ == "ref":
                        tags.append("const-ref:" + ("self" if nm == k else "backward" if nm in keys[:i] else "forward" if nm in keys else "undefined"))
        elif case["kind"] == "toml":
            tags.append("toml:" + case["tag"].split(":")[0] + ":" + case["via"])
        elif case["kind"] == "facets":
            tags.append("facets:" + case["tag"].split(":")[0] + (":diagnosed" if impl.get("diags") else ":silent"))
        elif case["kind"] == "tomlraw":
            tags.append("tomlraw:" + case["tag"] + ":" + case["via"])
        else:
            tags.append("spec:" + case["category"])
        return tags

    def sample(self, case, impl):
        small = case if len(json.dumps(case)) < 1500 else {"kind": case["kind"], "tag": case.get("tag"), "note": "case too large for the evidence file"}
        return {"case": small, "impl_out": impl.get("out")}


PROP = C16()
