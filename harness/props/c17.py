"""C17 — source discovery (util.get_files) stays inside the project and terminates.

Every case is a small directory tree (a list of creation ops) that is materialised in a private
temp directory, described to the Lean model with the REAL `Path.resolve()` results and the REAL
`os.scandir` order, scanned by the real `get_files`, and removed again.
"""
import atexit
import json
import os
import posixpath
import re
import shutil
import signal
import stat
import tempfile
from pathlib import Path, PurePath, PurePosixPath

import core

WATCHDOG_S = 10.0
RUNAWAY = 20000
TMPBASE = os.environ.get("TMPDIR") or tempfile.gettempdir()
_MAIN_PID = os.getpid()
HANG_FLAG = os.path.join(TMPBASE, f"snooty-verif-c17-hang-{_MAIN_PID}")

DIRNAMES = ["a", "b", "c", "d.txt"]
FILENAMES = ["x.txt", "y.rst", "z.yaml", "w.md", "noext", ".txt", "v.tar.txt", "u.ast", "t.toml"]
EXT_SETS = [[".txt", ".rst"], [".txt", ".rst"], [".txt", ".rst"], [".yaml"], [".ast"], [".toml"], [".txt", ".rst", ".yaml", ".toml"]]
NESTED_RE = re.compile(r"Nested project detected: (.*)\. Files from this project", re.S)


class _Hang(BaseException):
    pass


def _drop_hang_flag():
    """HANG_FLAG: once one case of this run hit the 10 s watchdog, later cases get 1 s (keeps a run over a
    diverging implementation short); per main-process pid, removed at start and exit."""
    if os.getpid() == _MAIN_PID:
        try:
            os.remove(HANG_FLAG)
        except OSError:
            pass


def _inside(a: str, b: str) -> bool:
    """a == b or a below b (both absolute, normalised) — the meaning of util.is_relative_to"""
    try:
        PurePath(a).relative_to(PurePath(b))
        return True
    except ValueError:
        return False


# ------------------------------------------------------------------------------------------
# trees
# ------------------------------------------------------------------------------------------

def materialise(case) -> str:
    T = os.path.realpath(tempfile.mkdtemp(prefix="snooty-verif-c17-", dir=TMPBASE))
    for op in case["ops"]:
        p = os.path.join(T, op[1])
        try:
            if op[0] == "d":
                os.makedirs(p, exist_ok=True)
            elif op[0] == "f":
                os.makedirs(os.path.dirname(p), exist_ok=True)
                with open(p, "w") as f:
                    f.write("x\n")
            elif op[0] == "l":
                os.makedirs(os.path.dirname(p), exist_ok=True)
                os.symlink(op[2].replace("$T", T), p)
        except OSError:
            pass  # shrinking may remove a parent that became a file/link; the op is simply void
    return T


def cleanup(T: str) -> None:
    shutil.rmtree(T, ignore_errors=True)


def canon_id(T: str, p: str) -> str:
    return posixpath.relpath(p, T) if _inside(p, T) else p


def describe(T: str, root_resolved: str, jail_abs: str, exts) -> dict:
    """the file system as the model wants it: per canonical directory the entries in scandir order,
    classified the way os.walk classifies them, with what each name resolves to."""
    dirs, jail, toml = [], set(), set()
    mentioned = {root_resolved}
    queue, done = [root_resolved], set()
    while queue:
        c = queue.pop(0)
        if c in done:
            continue
        done.add(c)
        entries = []
        try:
            # get_files goes through the sub-directories of a directory by NAME (it sorts what os.walk hands it), so that an alias
            # directory is named the same in every build; the model gets the listing in the order the code uses. (The order of
            # the plain files of a directory does not matter to either: yielded paths are compared as multisets.)
            it = sorted(os.scandir(c), key=lambda e: e.name)
        except OSError:
            continue
        for e in it:
            full = os.path.join(c, e.name)
            w = os.path.splitext(e.name)[1] in exts
            try:
                is_dir = e.is_dir()
            except OSError:
                is_dir = False
            if is_dir:
                r = str(Path(full).resolve())
                mentioned.add(r)
                entries.append({"n": e.name, "k": "dir", "c": canon_id(T, r), "w": w})
                if _inside(r, T) and r not in done:
                    queue.append(r)
                if os.path.exists(os.path.join(r, "snooty.toml")):
                    toml.add(canon_id(T, r))
            else:
                try:
                    r = str(Path(full).resolve())
                except (RuntimeError, OSError):
                    entries.append({"n": e.name, "k": "loop", "w": w})
                    continue
                mentioned.add(r)
                kind = "file" if os.path.exists(full) else "dangling"
                st = os.lstat(full)
                ent = {"n": e.name, "k": kind, "c": canon_id(T, r), "w": w, "reg": stat.S_ISREG(st.st_mode)}
                if stat.S_ISLNK(st.st_mode):
                    lex = os.path.normpath(os.path.join(c, os.readlink(full)))
                    ent["lex"] = canon_id(T, lex)
                    ent["lexin"] = _inside(lex, jail_abs)
                entries.append(ent)
        dirs.append({"c": canon_id(T, c), "entries": entries})
    nested = set()
    for m in mentioned:
        if _inside(m, jail_abs):
            jail.add(canon_id(T, m))
        # inside a nested project without being its root: a proper ancestor strictly below the scan root has a snooty.toml
        anc = os.path.dirname(m)
        while _inside(anc, root_resolved) and anc != root_resolved:
            if os.path.exists(os.path.join(anc, "snooty.toml")):
                nested.add(canon_id(T, m))
                break
            anc = os.path.dirname(anc)
    return {"root": canon_id(T, root_resolved), "dirs": dirs, "jail": sorted(jail), "toml": sorted(toml), "nested": sorted(nested)}


def args_of(case, T):
    """(root argument, jail argument or None, cwd or None)"""
    scan = case["scan"]
    if case.get("via"):
        # the root is handed over through a symlinked spelling of the project directory
        first, _, rest = scan.partition("/")
        scan = "plink" + ("/" + rest if rest else "")
    cwd = T if case.get("cwd") else None
    root = Path(scan) if cwd else Path(T, scan)
    jail = Path(T, case["jail"]) if case.get("jail") else None
    return root, jail, cwd


# ------------------------------------------------------------------------------------------
# direct oracle facts (computed while the tree exists; no model involved)
# ------------------------------------------------------------------------------------------

def oracle_facts(T, root: Path, jail_abs: str, exts, yielded, diag_keys):
    root_abs = os.path.abspath(root)
    root_real = os.path.realpath(root_abs)
    jail_real = os.path.realpath(jail_abs)
    escapes, below_nested = [], []
    yreal = set()
    yown = set()  # yielded paths re-spelled below the real scan root (a file must be yielded under its OWN path, not only via an alias)
    for y in yielded:
        ya = os.path.abspath(y)
        r = os.path.realpath(ya)
        yreal.add(r)
        yown.add(os.path.normpath(os.path.join(root_real, os.path.relpath(ya, root_abs))))
        if not _inside(r, jail_real):
            escapes.append([os.path.relpath(ya, root_abs), canon_id(T, r)])
        # proper ancestors strictly below the scan root - of the path as yielded, and of the REAL directory the file was found in
        # (a link into a sub-directory of a nested project leads into that project just as well)
        hit = False
        for start, base in ((os.path.dirname(ya), root_abs), (os.path.realpath(os.path.dirname(ya)), root_real)):
            anc = start
            while not hit and _inside(anc, base) and anc != base:
                if os.path.exists(os.path.join(anc, "snooty.toml")):
                    below_nested.append([os.path.relpath(ya, root_abs), os.path.relpath(anc, base)])
                    hit = True
                anc = os.path.dirname(anc)
    missing, unreported, nested = [], [], []
    reported = {os.path.normpath(os.path.join(root_abs, k)) for k in diag_keys}

    def rec(d):
        for name in sorted(os.listdir(d)):
            full = os.path.join(d, name)
            st = os.lstat(full)
            if stat.S_ISREG(st.st_mode):
                if os.path.splitext(name)[1] in exts and full not in yreal:  # NB: a file inside an aliased directory is legitimately yielded only under the alias spelling
                    missing.append(canon_id(T, full))
            elif stat.S_ISDIR(st.st_mode):
                tm = os.path.join(full, "snooty.toml")
                if os.path.exists(tm):
                    nested.append(canon_id(T, full))
                    if tm not in reported:
                        unreported.append(canon_id(T, full))
                else:
                    rec(full)

    if _inside(root_real, jail_real):
        rec(root_real)   # (a scan root that resolves outside the jail has no in-project files below it: nothing is demanded)
    return {"escapes": escapes, "below_nested": below_nested, "missing": missing, "unreported": unreported, "nested": nested}


# ------------------------------------------------------------------------------------------
# generator
# ------------------------------------------------------------------------------------------

def gen_case(rng, loops: bool):
    mode = rng.choice(["source+proj", "source+proj", "proj", "source"])
    scan = "proj" if mode == "proj" else "proj/source"
    jail = "proj" if mode == "source+proj" else None
    # "proj-archive" is OUTSIDE the project although its path has the project's path as a string prefix
    ops = [["d", "outside"], ["d", "outside/sub"], ["f", "outside/o.txt"], ["f", "outside/sub/p.rst"], ["d", "proj"],
           ["d", "proj-archive"], ["f", "proj-archive/z.txt"]]
    if rng.random() < 0.8:
        ops.append(["f", "proj/snooty.toml"])
    ops += [["d", "proj/source"], ["d", "proj/other"], ["f", "proj/other/q.txt"], ["d", "proj/other/deep"], ["f", "proj/other/deep/r.rst"]]
    if rng.random() < 0.15:
        ops.append(["f", "outside/snooty.toml"])
    taken = {o[1] for o in ops}
    depth = {scan: 0}
    real = [scan]
    if scan == "proj":
        for d in ("proj/source", "proj/other", "proj/other/deep"):
            depth[d] = d.count("/")
            real.append(d)
    files = []
    for _ in range(rng.choice([0, 1, 2, 3, 4, 5, 6, 8])):
        parent = rng.choice([d for d in real if depth[d] < 4])
        p = parent + "/" + rng.choice(DIRNAMES)
        if p in taken:
            continue
        taken.add(p)
        depth[p] = depth[parent] + 1
        real.append(p)
        ops.append(["d", p])
    for d in real:
        for _ in range(rng.choice([0, 1, 1, 2, 3])):
            p = d + "/" + rng.choice(FILENAMES)
            if p in taken:
                continue
            taken.add(p)
            files.append(p)
            ops.append(["f", p])
    nested = []
    for d in real:
        if d != scan and rng.random() < 0.2 and d + "/snooty.toml" not in taken:
            taken.add(d + "/snooty.toml")
            nested.append(d)
            if rng.random() < 0.15:
                ops.append(["l", d + "/snooty.toml", "$T/proj/other/q.txt"])
            else:
                ops.append(["f", d + "/snooty.toml"])
    links = []
    dlinks = {}   # directory link -> the directory it (logically) leads to
    flinks = []   # file links (whatever they lead to)
    nlinks = rng.choice([0, 1, 1, 2, 2, 3, 3, 4, 5, 6])
    for i in range(nlinks):
        r = rng.random()
        loc = rng.choice(real) if r < 0.9 else rng.choice(["outside", "proj/other", "outside/sub"])
        kinds = ["dir-inside", "dir-inside", "ancestor", "ancestor", "scan-root", "scan-root", "proj-root", "child", "outside",
                 "outside", "other", "chain", "dangling-in", "dangling-out", "file-in", "file-out", "file-other", "nested-inner", "T"]
        if loops:
            kinds += ["self-loop"] * 4
        kind = rng.choice(kinds)
        isfile = False
        if kind == "dir-inside":
            tgt = rng.choice(real)
        elif kind == "ancestor":
            anc = [a for a in real if loc == a or loc.startswith(a + "/")]
            tgt = rng.choice(anc) if anc else scan
        elif kind == "scan-root":
            tgt = scan
        elif kind == "proj-root":
            tgt = "proj"
        elif kind == "child":
            ch = [a for a in real if posixpath.dirname(a) == loc]
            tgt = rng.choice(ch) if ch else rng.choice(real)
        elif kind == "outside":
            tgt = rng.choice(["outside", "outside/sub", "proj-archive"])
        elif kind == "T":
            tgt = "."
        elif kind == "other":
            tgt = rng.choice(["proj/other", "proj/other/deep"])
        elif kind == "chain":
            tgt = rng.choice(links) if links else scan
        elif kind == "dangling-in":
            tgt, isfile = loc + "/nonexistent" + rng.choice(["", ".txt"]), True
        elif kind == "dangling-out":
            tgt, isfile = "outside/nonexistent.txt", True
        elif kind == "file-in":
            tgt, isfile = (rng.choice(files) if files else "proj/other/q.txt"), True
        elif kind == "file-out":
            tgt, isfile = rng.choice(["outside/o.txt", "outside/sub/p.rst", "proj-archive/z.txt"]), True
        elif kind == "file-other":
            tgt, isfile = rng.choice(["proj/other/q.txt", "proj/other/deep/r.rst"]), True
        elif kind == "nested-inner":
            inner = [a for a in real for nd in nested if a.startswith(nd + "/")]
            tgt = rng.choice(inner) if inner else (rng.choice(nested) if nested else scan)
        else:  # self-loop
            tgt, isfile = None, True
        name = (rng.choice(["k%d.txt", "k%d.rst", "k%d", "k%d.yaml"]) if isfile or rng.random() < 0.1 else rng.choice(["l%d", "l%d", "A%d", "z%d"])) % i
        p = loc + "/" + name
        if p in taken:
            continue
        taken.add(p)
        if tgt is None:
            t = name
        elif rng.random() < 0.5:
            t = posixpath.relpath(tgt, loc)
        else:
            t = "$T/" + tgt if tgt != "." else "$T"
        ops.append(["l", p, t])
        if not isfile:
            links.append(p)
            dlinks[p] = tgt
        elif tgt is not None:
            flinks.append(p)
    # second-order links: the link text does not name the final location directly, so that following ONE
    # hop, or normalising the text lexically, gives a different answer than the real resolution:
    #   file link -> file link (-> ... -> file anywhere); link whose text runs THROUGH a directory link;
    #   text with ".." after a directory link (physical parent of the link's target != lexical parent)
    all_files = files + [o[1] for o in ops if o[0] == "f" and not o[1].endswith("snooty.toml") and o[1] not in files]
    all_dirs = [o[1] for o in ops if o[0] == "d"]
    for j in range(rng.choice([0, 0, 1, 1, 2, 3, 4])):
        loc = rng.choice(real)
        kind = rng.choice(["file-chain", "file-chain", "file-through-dirlink", "file-through-dirlink", "dir-through-dirlink", "dotdot-after-dirlink"])
        ext = rng.choice([".txt", ".rst", ".yaml", ""])
        if kind == "file-chain":
            if not flinks or rng.random() < 0.4:
                # make a hop first: a file link to any file (inside, in proj/other, outside), anywhere in the tree
                hop = rng.choice(real) + "/h%d%s" % (j, rng.choice([".txt", ".rst", ""]))
                if hop in taken:
                    continue
                taken.add(hop)
                htgt = rng.choice(all_files)
                ops.append(["l", hop, posixpath.relpath(htgt, posixpath.dirname(hop)) if rng.random() < 0.5 else "$T/" + htgt])
                flinks.append(hop)
            tgt, isfile = rng.choice(flinks), True
        else:
            if not dlinks:
                # make a directory link first
                dl = rng.choice(real) + "/g%d" % j
                if dl in taken:
                    continue
                taken.add(dl)
                dt = rng.choice(["outside", "outside/sub", "proj-archive", "proj/other", rng.choice(real)])
                ops.append(["l", dl, posixpath.relpath(dt, posixpath.dirname(dl)) if rng.random() < 0.5 else "$T/" + dt])
                dlinks[dl] = dt
                links.append(dl)
            L = rng.choice(sorted(dlinks))
            D = dlinks[L]
            if kind == "file-through-dirlink":
                under = [f for f in all_files if D == "." or f.startswith(D + "/")]
                rel = posixpath.relpath(rng.choice(under), D) if under and rng.random() < 0.85 else "nonexistent.txt"
                tgt, isfile = L + "/" + rel, True
            elif kind == "dir-through-dirlink":
                under = [d for d in all_dirs if d != D and (D == "." or d.startswith(D + "/"))]
                if not under:
                    continue
                tgt, isfile = L + "/" + posixpath.relpath(rng.choice(under), D), False
            else:  # text "<L>/../<name>": physically dirname(D)/<name>, lexically dirname(L)/<name>
                par = posixpath.dirname(D) if D not in (".", "") else "."
                sib = [f for f in all_files if posixpath.dirname(f) == par] + [d for d in all_dirs if posixpath.dirname(d) == par and d != D]
                nm = posixpath.basename(rng.choice(sib)) if sib and rng.random() < 0.8 else posixpath.basename(rng.choice(all_files))
                tgt, isfile = None, (par + "/" + nm) not in all_dirs
                raw = (posixpath.relpath(L, loc) if rng.random() < 0.6 else "$T/" + L) + "/../" + nm
        name = ("c%d%s" % (j, ext)) if isfile else rng.choice(["m%d", "B%d"]) % j
        p = loc + "/" + name
        if p in taken:
            continue
        taken.add(p)
        if tgt is None:
            t = raw
        else:
            t = posixpath.relpath(tgt, loc) if rng.random() < 0.6 else "$T/" + tgt
        ops.append(["l", p, t])
        if isfile:
            flinks.append(p)
        elif tgt is not None:
            # logical destination of the new directory link (for further chaining)
            dlinks[p] = posixpath.normpath(posixpath.join(dlinks[L], posixpath.relpath(tgt, L)))
            links.append(p)
    case = {"ops": ops, "scan": scan, "jail": jail, "exts": rng.choice(EXT_SETS)}
    if rng.random() < 0.15:
        case["via"] = True
        case["ops"] = ops + [["l", "plink", "proj"]]
    if rng.random() < 0.15:
        case["cwd"] = True
    return case


HAND = [
    # link back to the scan root from below, alias of a sibling, link out of the jail, nested project
    {"ops": [["d", "outside"], ["f", "outside/o.txt"], ["d", "proj"], ["f", "proj/snooty.toml"], ["d", "proj/source"],
             ["f", "proj/source/x.txt"], ["d", "proj/source/a"], ["f", "proj/source/a/y.txt"], ["l", "proj/source/a/up", ".."],
             ["l", "proj/source/alias", "a"], ["l", "proj/source/out", "$T/outside"], ["l", "proj/source/k.txt", "../../outside/o.txt"],
             ["d", "proj/source/n"], ["f", "proj/source/n/snooty.toml"], ["f", "proj/source/n/z.txt"],
             ["l", "proj/source/dang.txt", "nonexistent.txt"], ["l", "proj/source/projroot", "$T/proj"]],
     "scan": "proj/source", "jail": "proj", "exts": [".txt", ".rst"]},
    # two cycles through the same directory (exponential without `seen`), root == jail
    {"ops": [["d", "proj"], ["d", "proj/source"], ["f", "proj/source/x.txt"], ["l", "proj/source/l0", "."], ["l", "proj/source/l1", "."],
             ["d", "proj/source/a"], ["l", "proj/source/a/l2", ".."], ["l", "proj/source/a/l3", "."], ["f", "proj/source/a/y.rst"]],
     "scan": "proj/source", "jail": None, "exts": [".txt", ".rst"]},
    # the source directory of the project is itself a link to a content directory elsewhere (outside the jail), which holds two
    # links to itself: nothing in there belongs to the project, and the scan has to come back at once
    {"ops": [["d", "outside"], ["d", "outside/content"], ["f", "outside/content/page.txt"], ["l", "outside/content/latest", "."],
             ["l", "outside/content/current", "."], ["d", "outside/content/sub"], ["f", "outside/content/sub/q.txt"],
             ["d", "proj"], ["f", "proj/snooty.toml"], ["l", "proj/source", "$T/outside/content"]],
     "scan": "proj/source", "jail": "proj", "exts": [".txt", ".rst"]},
]


class C17(core.PropertyCheck):
    id = "C17"
    quick_budget = 1500
    thorough_budget = 12000
    rule = ("random directory trees (depth <= 4 below the scan root, 0-8 extra directories, mixed extensions incl. hidden/multi-dot/no extension), "
            "0-6 symlinks each: to a directory inside, to an ancestor (cycle), to the scan root, to the project root, to a child (alias), outside the "
            "jail (sibling tree, temp root), to proj/other (in jail, outside the scan root), chains of links, dangling (inside/outside), to files "
            "inside/outside, into a nested project; relative or absolute link text; nested snooty.toml (regular or link) at any level; scan root = project "
            "root or its source dir, jail = project root or default; root handed over absolute, relative to cwd, or through a symlinked spelling; "
            "second-order links (0-4 per tree): file link -> file link chains, link text running through a directory link (to files, sub-directories, nonexistent names), and text with '..' after a directory link (physical != lexical parent), so that one readlink hop or lexical normalisation differs from the real resolution; "
            "3% of the trees also carry self-referential links (outside the quantifier; correspondence only). "
            "non-trivial = tree with at least one symlink or nested project; distinct by tree")
    assumptions = [
        "os.scandir order, DirEntry.is_dir(), Path.resolve(), os.path.exists, os.path.splitext and PurePath.relative_to are inputs of the model "
        "(taken from the running OS/Python on the very tree that get_files scans); os.walk's own stack discipline is modelled (CPython 3.12) and tied by correspondence",
        "the tree does not change during the scan (the race the code comments mention is not modelled)",
        "the scan root resolves inside must_be_relative_to (otherwise the code skips the root without pruning; modelled, but excluded by hypothesis `inJail root`)",
    ]
    extra_trusted = ["the temp-dir file system (symlink, scandir, realpath) of the machine running the check"]

    def __init__(self):
        self._sent = {}
        self._pre = {}
        _drop_hang_flag()
        atexit.register(_drop_hang_flag)  # pool workers leave through os._exit: only the main process removes it

    # ---- static -------------------------------------------------------------------------
    def static_obligations(self):
        T = os.path.realpath(tempfile.mkdtemp(prefix="snooty-verif-c17-probe-", dir=TMPBASE))
        try:
            os.makedirs(os.path.join(T, "r", "d"))
            open(os.path.join(T, "r", "f.txt"), "w").close()
            os.symlink("d", os.path.join(T, "r", "ld"))
            os.symlink("nowhere", os.path.join(T, "r", "dang"))
            os.symlink("self", os.path.join(T, "r", "self"))
            os.symlink("f.txt", os.path.join(T, "r", "lf"))
            top = next(os.walk(os.path.join(T, "r"), followlinks=True))
            names = [e.name for e in os.scandir(os.path.join(T, "r"))]
            ok1 = sorted(top[1]) == ["d", "ld"] and sorted(top[2]) == ["dang", "f.txt", "lf", "self"]
            ok2 = top[1] == [n for n in names if n in ("d", "ld")] and top[2] == [n for n in names if n not in ("d", "ld")]
            try:
                Path(T, "r", "self").resolve()
                ok3 = False
            except (RuntimeError, OSError):
                ok3 = True
            ok4 = str(Path(T, "r", "dang").resolve()) == os.path.join(T, "r", "nowhere")
        finally:
            cleanup(T)
        return [
            ("os.walk(followlinks=True) puts links to directories into dirs; dangling and self-referential links into files", ok1, str(top[1:])),
            ("os.walk lists dirs and files in os.scandir order", ok2, f"{names} vs {top[1:]}"),
            ("Path.resolve() raises RuntimeError (or OSError) on a link cycle (Kind.loop; caught by get_files)", ok3, ""),
            ("non-strict Path.resolve() of a dangling link is its lexical target (Kind.dangling)", ok4, ""),
        ]

    def corpus(self):
        return [dict(c, origin="hand") for c in HAND] + super().corpus()

    # ---- cases --------------------------------------------------------------------------
    def generate(self, rng, budget, tier):
        cases = [gen_case(rng, loops=(rng.random() < 0.15)) for _ in range(budget)]
        if tier != "search" and len(cases) >= 64 and core.NPROC > 1:
            # the tree descriptions for the model (materialise + scandir/resolve + remove) are independent:
            # compute them in a fork pool instead of one by one in model_request
            import multiprocessing
            with multiprocessing.get_context("fork").Pool(core.NPROC) as pool:
                descs = pool.map(_describe_fresh, cases, chunksize=max(1, len(cases) // (core.NPROC * 8)))
            for c, fs in zip(cases, descs):
                self._pre[json.dumps(c, sort_keys=True)] = fs
        yield from cases

    def shrink_candidates(self, case):
        if "ops" not in case:      # a tree-change scenario of extra_checks: reported as found
            return
        ops = case["ops"]
        keep = {"proj", case["scan"], "plink"}
        for flag in ("via", "cwd"):
            if case.get(flag):
                c = dict(case)
                c.pop(flag)
                yield c
        for i in reversed(range(len(ops))):
            p = ops[i][1]
            if p in keep or case["scan"].startswith(p + "/") or (case.get("jail") or "").startswith(p + "/"):
                continue
            rest = [o for j, o in enumerate(ops) if j != i and not o[1].startswith(p + "/")]
            yield {**case, "ops": rest}
        for i, o in enumerate(ops):
            if o[0] == "l" and o[2].startswith("$T/") and o[1] != "plink":
                yield {**case, "ops": ops[:i] + [["l", o[1], posixpath.relpath(o[2][3:], posixpath.dirname(o[1]))]] + ops[i + 1:]}

    # ---- model --------------------------------------------------------------------------
    def _describe_case(self, case, T):
        root, jail, cwd = args_of(case, T)
        root_abs = os.path.join(T, str(root)) if cwd else str(root)
        root_resolved = str(Path(root_abs).resolve())
        jail_abs = str(jail) if jail is not None else root_resolved
        return describe(T, root_resolved, jail_abs, case["exts"])

    def model_request(self, case):
        fs = self._pre.pop(json.dumps(case, sort_keys=True), None)
        if fs is None:
            fs = _describe_fresh(case)
        self._sent[json.dumps(case, sort_keys=True)] = json.dumps(fs, sort_keys=True)
        return dict(fs, op="c17.walk")

    # ---- implementation -----------------------------------------------------------------
    def run_impl(self, case):
        from snooty import util
        from snooty.diagnostics import NestedProject

        T = materialise(case)
        old_cwd = os.getcwd()
        limit = 1.0 if os.path.exists(HANG_FLAG) else WATCHDOG_S
        try:
            fs = self._describe_case(case, T)
            root, jail, cwd = args_of(case, T)
            if cwd:
                os.chdir(cwd)
            diagnostics = {}
            yielded = []
            res = {"fs": fs}

            def on_alarm(signum, frame):
                raise _Hang()

            old = signal.signal(signal.SIGALRM, on_alarm)
            signal.setitimer(signal.ITIMER_REAL, limit)
            try:
                for p in util.get_files(root, tuple(case["exts"]), jail, diagnostics):
                    yielded.append(p)
                    if len(yielded) > RUNAWAY:
                        res["runaway"] = True
                        break
            except _Hang:
                res["hang"] = True
                try:
                    open(HANG_FLAG, "w").close()
                except OSError:
                    pass
            except Exception as e:
                res["exc"] = type(e).__name__
                res["msg"] = str(e).replace(T, "$T")[:200]
            finally:
                signal.setitimer(signal.ITIMER_REAL, 0)
                signal.signal(signal.SIGALRM, old)
            if res.get("hang") or res.get("runaway"):
                res["n_yielded"] = len(yielded)
                return res
            root_abs = os.path.abspath(root)
            paths = []
            for y in yielded:
                ya = os.path.abspath(y)
                paths.append(posixpath.relpath(ya, root_abs) if _inside(ya, root_abs) else ya.replace(T, "$T"))
            diags = {}
            for k, v in diagnostics.items():
                names = []
                for d in v:
                    m = NESTED_RE.search(d.message) if isinstance(d, NestedProject) else None
                    names.append(m.group(1) if m else f"?{type(d).__name__}:{d.message}")
                diags[PurePosixPath(k).as_posix()] = names
            res["paths"] = sorted(paths)
            res["diags"] = diags
            if "exc" not in res:
                jail_abs = str(jail) if jail is not None else str(Path(root_abs).resolve())
                res["facts"] = oracle_facts(T, root, jail_abs, case["exts"], yielded, list(diags))
            return res
        finally:
            os.chdir(old_cwd)
            cleanup(T)

    def root_rel(self, case):
        scan = case["scan"]
        if case.get("via"):
            _, _, rest = scan.partition("/")
            scan = "plink" + ("/" + rest if rest else "")
        return scan

    def compare(self, case, model, impl):
        sent = self._sent.pop(json.dumps(case, sort_keys=True), None)
        if sent is not None and sent != json.dumps(impl["fs"], sort_keys=True):
            # the second materialisation enumerated differently: re-run the model on what the implementation saw
            model = core.run_driver([dict(impl["fs"], op="c17.walk")])[0]
        if impl.get("hang") or impl.get("runaway"):
            return f"implementation did not finish ({'hang' if impl.get('hang') else 'runaway'}), model: {model.get('exc') or 'finishes with %d paths' % len(model.get('out', []))}"
        if model.get("exc") == "fuel":
            return f"model ran out of fuel {model.get('fuel')} (walk_fuel hypothesis broken?)"
        if impl.get("exc") or model.get("exc"):
            if impl.get("exc") != model.get("exc"):
                return f"exception differs: model {model.get('exc')} impl {impl.get('exc')} {impl.get('msg', '')}"
            return None
        want = sorted(posixpath.join(*y[0]) for y in model["out"])
        if want != impl["paths"]:
            return f"yielded paths differ: model-only {sorted(set(want) - set(impl['paths']))} impl-only {sorted(set(impl['paths']) - set(want))} (multiset sizes {len(want)}/{len(impl['paths'])})"
        root = posixpath.join("/T", self.root_rel(case))
        wd = {}
        for c, name in model["diags"]:
            key = PurePosixPath(posixpath.relpath(posixpath.normpath(posixpath.join("/T", c, "snooty.toml")), root)).as_posix()
            wd[key] = [name]
        if wd != impl["diags"]:
            return f"NestedProject diagnostics differ: model {wd} impl {impl['diags']}"
        return None

    # ---- direct oracle ------------------------------------------------------------------
    def has_wanted_loop(self, impl):
        return any(e["k"] == "loop" and e["w"] for d in impl["fs"]["dirs"] for e in d["entries"])

    def oracle(self, case, impl):
        if impl.get("hang"):
            return f"termination: get_files still running after the watchdog limit ({impl.get('n_yielded')} paths yielded so far)"
        if impl.get("runaway"):
            n = sum(len(d["entries"]) for d in impl["fs"]["dirs"])
            return f"termination: more than {RUNAWAY} paths yielded from a tree of {n} names; the enumeration is not bounded by the tree"
        if impl.get("exc"):
            return f"exception: get_files raised {impl['exc']}: {impl.get('msg')}"
        f = impl["facts"]
        if f["escapes"]:
            return f"jail: yielded path resolves outside the jail: {f['escapes'][:3]}"
        if f["below_nested"]:
            return f"nested-descent: yielded path lies below a directory with snooty.toml: {f['below_nested'][:3]}"
        if f["missing"]:
            return f"coverage: regular in-tree file with a requested extension not yielded: {f['missing'][:5]}"
        if f["unreported"]:
            return f"unreported: nested project without NestedProject diagnostic: {f['unreported'][:3]} (diagnostics {sorted(impl['diags'])})"
        return None

    def finding_key(self, case, impl, desc):
        return desc.split(":")[0]

    # ---- the tree changes while it is being scanned -------------------------------------
    def extra_checks(self, tier, rng):
        """get_files is a lazy generator that the build consumes while parsing: between two `next()` calls the tree may change.
        Scenario: after the first path came out (the root's own files are yielded before the walk descends), every real
        sub-directory of the scan root that was queued is replaced by a symbolic link to a directory OUTSIDE the project holding
        files of the same names. Whatever comes out afterwards must still resolve inside the jail at the moment it is yielded
        (that is what the re-check of every base directory and of every file after resolving is for)."""
        from snooty import util
        n = 40 if tier == "quick" else 400
        viol, ran, swapped, yielded_after = [], 0, 0, 0
        for k in range(n):
            T = os.path.realpath(tempfile.mkdtemp(prefix="snooty-verif-c17swap-", dir=TMPBASE))
            try:
                root = os.path.join(T, "proj")
                outside = os.path.join(T, "outside")
                os.makedirs(root)
                os.makedirs(outside)
                with open(os.path.join(root, "index.txt"), "w") as f:
                    f.write("x\n")
                subs = []
                for i in range(rng.randint(1, 4)):
                    d = os.path.join(root, f"d{i}")
                    os.makedirs(os.path.join(d, "deep") if rng.random() < 0.5 else d)
                    names = [f"f{j}.txt" for j in range(rng.randint(1, 3))]
                    for nm in names:
                        open(os.path.join(d, nm), "w").write("in\n")
                    if os.path.isdir(os.path.join(d, "deep")):
                        open(os.path.join(d, "deep", "g.txt"), "w").write("in\n")
                    m = os.path.join(outside, f"m{i}")
                    os.makedirs(os.path.join(m, "deep"))
                    for nm in names + ["extra.txt"]:
                        open(os.path.join(m, nm), "w").write("OUT\n")
                    open(os.path.join(m, "deep", "g.txt"), "w").write("OUT\n")
                    subs.append((d, m))
                jail_mode = rng.random() < 0.5
                jail = Path(root) if jail_mode else None
                gen = util.get_files(Path(root), (".txt",), jail, {})
                escapes, got = [], []
                first = next(gen, None)
                if first is None:
                    continue
                got.append(first)
                for d, m in subs:
                    if rng.random() < 0.8:
                        os.rename(d, d + ".moved-away")
                        shutil.move(d + ".moved-away", os.path.join(T, "trash-" + os.path.basename(d)))
                        os.symlink(m, d)
                        swapped += 1
                ran += 1
                for p in gen:
                    real = os.path.realpath(p)
                    yielded_after += 1
                    if not _inside(real, os.path.realpath(root)):
                        escapes.append([os.path.relpath(str(p), T), os.path.relpath(real, T)])
                if escapes:
                    viol.append({"case": {"kind": "swap", "subdirs": len(subs), "jail": jail_mode, "escapes": escapes[:4]},
                                 "desc": ("jail: after queued sub-directories were replaced by links to a directory outside the project during the scan, "
                                          f"get_files yielded {escapes[0][0]} which resolves to {escapes[0][1]}"),
                                 "key": "jail-swap"})
                    break
            finally:
                cleanup(T)
        # ---- the tree changes BETWEEN two scans of one process (language server, watch mode, test suites): what a scan reports is a
        # function of the tree as it is now, not of what an earlier scan of the same paths saw
        rescans = 0
        if not viol:
            for k in range(30 if tier == "quick" else 300):
                T = os.path.realpath(tempfile.mkdtemp(prefix="snooty-verif-c17rescan-", dir=TMPBASE))
                try:
                    proj = os.path.join(T, "proj")
                    root = os.path.join(proj, "source")
                    dirs = ["a", "b", "a/deep", "c"]
                    for d in dirs:
                        os.makedirs(os.path.join(root, d), exist_ok=True)
                        open(os.path.join(root, d, "p.txt"), "w").write("x\n")
                        open(os.path.join(root, d, "extracts-q.yaml"), "w").write("ref: q\ncontent: x\n")
                    open(os.path.join(root, "index.txt"), "w").write("x\n")
                    open(os.path.join(proj, "snooty.toml"), "w").write('name = "outer"\n')
                    extra = []   # YAML files written between two scans
                    # links that lead INTO directories which may become (or stop being) part of a nested project between two scans
                    links = rng.choice([[], [("zl-deep", "a/deep")], [("zl-deep", "a/deep"), ("b/zl-c", "../c")], [("c/zl-a", "../a/deep")]])
                    for ln, tgt in links:
                        os.symlink(tgt, os.path.join(root, ln))

                    def real_rel(p):
                        return os.path.relpath(os.path.realpath(os.path.join(root, p)), os.path.realpath(root))

                    def state():
                        return {d for d in dirs if os.path.exists(os.path.join(root, d, "snooty.toml"))}

                    def expected(nested, leaf="p.txt"):
                        out = {"index.txt"} if leaf == "p.txt" else set(extra)
                        for d in dirs:
                            if not any(d == nd or d.startswith(nd + "/") for nd in nested):
                                out.add(d + "/" + leaf)
                        return out

                    for d in dirs:
                        if rng.random() < 0.4:
                            open(os.path.join(root, d, "snooty.toml"), "w").write('name = "n"\n')
                    for step in range(3):
                        diags = {}
                        got = {os.path.relpath(str(p), root) for p in util.get_files(Path(root), (".txt",), Path(proj) if rng.random() < 0.5 else None, diags)}
                        rescans += 1
                        nested = state()
                        top = {nd for nd in nested if not any(nd.startswith(o + "/") for o in nested if o != nd)}
                        reported = {os.path.dirname(str(k)) for k in diags}
                        # links may give a directory another name: judge by the real files and the real nested projects
                        got = {real_rel(p) for p in got}
                        reported = {real_rel(p) for p in reported}
                        if got != expected(nested) or not (reported <= nested and top <= reported):
                            viol.append({"case": {"kind": "rescan", "step": step, "nested": sorted(nested), "got": sorted(got), "reported": sorted(reported)},
                                         "desc": (f"rescan: scan number {step + 1} of one tree in one process, nested projects now {sorted(nested)}: yielded {sorted(got)} "
                                                  f"(expected {sorted(expected(nested))}), NestedProject reported for {sorted(reported)} (expected {sorted(top)})"),
                                         "key": "rescan"})
                            break
                        # the same tree through the project's own listing of its YAML sources (a configuration opened anew each time,
                        # as a rebuild or a reopened workspace does)
                        from snooty.types import ProjectConfig
                        cfg, _ = ProjectConfig.open(Path(proj))
                        goty = {real_rel(fid.as_posix()) for fid in cfg.get_files_by_extension((".yaml",))}
                        if goty != expected(nested, "extracts-q.yaml"):
                            viol.append({"case": {"kind": "rescan-yaml", "step": step, "nested": sorted(nested), "got": sorted(goty)},
                                         "desc": (f"rescan: listing number {step + 1} of the YAML sources of one project in one process, nested projects now "
                                                  f"{sorted(nested)}, files written since the first listing {extra}: yielded {sorted(goty)} "
                                                  f"(expected {sorted(expected(nested, 'extracts-q.yaml'))})"),
                                         "key": "rescan-yaml"})
                            break
                        if rng.random() < 0.5:
                            extra.append(f"steps-new{step}.yaml")
                            open(os.path.join(root, extra[-1]), "w").write("title: t\nref: r\ncontent: x\n")
                        # toggle some markers before the next scan
                        for d in dirs:
                            if rng.random() < 0.4:
                                f = os.path.join(root, d, "snooty.toml")
                                if os.path.exists(f):
                                    os.unlink(f)
                                else:
                                    open(f, "w").write('name = "n"\n')
                    if viol:
                        break
                finally:
                    cleanup(T)
        return viol, {"tree_changes_between_scans": {"scans": rescans, "what": "nested-project markers added / removed between scans of the same paths in one process"},
                      "tree_changes_during_scan": {"scenarios": ran, "directories_swapped": swapped, "paths_yielded_after_the_swap": yielded_after,
                                                     "what": "queued real sub-directories replaced by links to outside mirrors after the first yield; every later path must resolve inside the root"}}

    # ---- evidence -----------------------------------------------------------------------
    def nontrivial_key(self, case, impl):
        if any(o[0] == "l" for o in case["ops"] if o[1] != "plink") or (impl.get("facts") or {}).get("nested"):
            return json.dumps(case, sort_keys=True)
        return None

    def branch_tags(self, case, model, impl):
        tags = ["scan=" + case["scan"] + ("+jail" if case.get("jail") else "")]
        for flag in ("via", "cwd"):
            if case.get(flag):
                tags.append("root-" + flag)
        if impl.get("exc"):
            tags.append("exc:" + impl["exc"])
        fs = impl["fs"]
        jail, toml = set(fs["jail"]), set(fs["toml"])
        if model and "scans" in model:
            scans = model["scans"]
            if scans.count(fs["root"]) == 2:
                tags.append("root-rescanned-through-link")
            by = {d["c"]: d["entries"] for d in fs["dirs"]}
            ndir = 0
            for c in set(scans):
                for e in by.get(c, []):
                    if e["k"] == "dir":
                        ndir += 1
                        if e["c"] not in jail:
                            tags.append("dir-link-out-of-jail-pruned")
                        elif e["c"] in toml:
                            tags.append("nested-project-pruned")
                    elif e["k"] in ("file", "dangling") and e["w"]:
                        if e["c"] not in jail:
                            tags.append("file-link-out-of-jail-skipped")
                            if e.get("lexin"):
                                tags.append("indirect-file-link-out-of-jail-skipped(one-hop-lexical-target-is-inside)")
                        elif e["k"] == "dangling":
                            tags.append("dangling-link-yielded")
                        elif not e.get("reg"):
                            if e.get("lex") is not None and e["lex"] != e["c"]:
                                tags.append("file-link-indirect(one-hop-lexical!=resolved)-yielded")
                            tags.append("file-link-yielded")
                    elif e["k"] == "loop":
                        tags.append("self-loop-link")
            good = sum(1 for c in set(scans) for e in by.get(c, []) if e["k"] == "dir" and e["c"] in jail and e["c"] not in toml)
            if good > len(scans) - 1:
                tags.append("directory-pruned-as-seen-or-alias")
            if model.get("diags"):
                tags.append("nested-reported")
        return sorted(set(tags))

    def sample(self, case, impl):
        return {"case": case, "paths": impl.get("paths"), "diags": impl.get("diags"), "exc": impl.get("exc")}


def _describe_fresh(case):
    T = materialise(case)
    try:
        return PROP._describe_case(case, T)
    finally:
        cleanup(T)


PROP = C17()
