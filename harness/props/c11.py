"""C11 — the parse cache is transparent: cached builds equal clean builds.

Three kinds of cases:

* ``e2e``    a tiny generated project + a history of 1-4 edits / cache-file faults. run_impl writes it to a
             temp dir, (1) parses every page in-process with file access audited and lists the reads that the
             page did not record as dependencies (the obligation `DepsCoverReads` of theorem
             `cache_transparent`), (2) builds and saves the cache the way `snooty create-cache` does, applies
             the history, builds WITH the cache (new Project) and WITHOUT (cache files deleted), and diffs
             pages, static assets, metadata and diagnostics, (3) turns every unrecorded read into a directed
             history (flip exactly that path) and diffs again.
* ``lookup`` a described set of cache entries + environment + edits: decision of the real `CacheData.get`
             vs. the model's `lookup`.
* ``load``   a cache file variant: `ParseCache.read_from_bytes` vs. the model's `loadFile`.
"""
import collections
import copy
import gzip
import hashlib
import json
import multiprocessing
import os
import pickle
import shutil
import struct
import tempfile
import sys
import zlib
from pathlib import Path

import core
from impl import fsaudit
from snooty import parse_cache, util
from snooty.diagnostics import ConstantNotDeclared
from snooty.n import FileId
from snooty.page import Page
from snooty.parser import Project, parse_rst
from snooty.types import ProjectConfig
from snooty.util import FileCacheMapping
from snooty.util_test import BackendTestResults


def png(w, h, extra=b""):
    ihdr = struct.pack(">II", w, h) + b"\x08\x02\x00\x00\x00"
    chunk = b"IHDR" + ihdr
    return b"\x89PNG\r\n\x1a\n" + struct.pack(">I", len(ihdr)) + chunk + struct.pack(">I", zlib.crc32(chunk)) + extra


PNGS = [png(2, 3), png(40, 10), png(7, 7, b"tail"), b"not an image"]

# --------------------------------------------------------------------------------------
# project rendering
# --------------------------------------------------------------------------------------

def render_toml(cfg):
    out = [f'name = "{cfg.get("name", "c11")}"', f'title = "{cfg.get("title", "Title")}"']
    if cfg.get("default_domain"):
        out.append(f'default_domain = "{cfg["default_domain"]}"')
    if cfg.get("toc_landing_pages"):
        out.append("toc_landing_pages = [" + ", ".join(f'"{x}"' for x in cfg["toc_landing_pages"]) + "]")
    if cfg.get("eol"):
        out.append("eol = true")
    if cfg.get("canonical"):
        out.append(f'canonical = "{cfg["canonical"]}"')
    for prod in cfg.get("associated_products", []):
        out += ["", "[[associated_products]]", f'name = "{prod}"', 'versions = ["v1.0", "v1.1"]']
    out.append("")
    out.append("[constants]")
    for k, v in cfg.get("constants", {}).items():
        out.append(f'{k} = "{v}"')
    out.append("")
    out.append("[substitutions]")
    for k, v in cfg.get("substitutions", {}).items():
        out.append(f'{k} = "{v}"')
    return "\n".join(out) + "\n"


def file_bytes(f):
    if "hex" in f:
        return bytes.fromhex(f["hex"])
    return f["text"].encode("utf-8")


def write_file(root, rel, f):
    p = root / rel
    if p.is_dir():
        shutil.rmtree(p)
    p.parent.mkdir(parents=True, exist_ok=True)
    p.write_bytes(file_bytes(f))


def delete_path(root, rel):
    p = root / rel
    if p.is_dir():
        shutil.rmtree(p)
    elif p.exists():
        p.unlink()


def cache_files(root):
    return sorted(root.glob(".snooty-*.cache.gz"))


# --------------------------------------------------------------------------------------
# running the real thing
# --------------------------------------------------------------------------------------

class Recording(BackendTestResults):
    """the recording backend of the repo's tests without its test-only flush() assertion
    (on_diagnostics / set_diagnostics bookkeeping is C14's subject and would abort both builds alike)"""

    def flush(self):
        pass


def _allow_children():
    """Project.build() opens a multiprocessing.Pool; a daemonic harness worker may not have children"""
    cur = multiprocessing.current_process()
    if cur.daemon:
        cur._config["daemon"] = False


def jsonable(x):
    if isinstance(x, bytes):
        return "bytes:" + hashlib.sha1(x).hexdigest()
    if isinstance(x, dict):
        return {str(k): jsonable(v) for k, v in x.items()}
    if isinstance(x, (list, tuple)):
        return [jsonable(v) for v in x]
    if isinstance(x, (set, frozenset)):
        return sorted((jsonable(v) for v in x), key=lambda v: json.dumps(v, sort_keys=True, default=str))
    if isinstance(x, (str, int, float, bool)) or x is None:
        return x
    if hasattr(x, "serialize"):
        return jsonable(x.serialize())
    return str(x)


def summarize(backend):
    pages = {}
    assets = {}
    for k, page in backend.pages.items():
        pages[k.as_posix()] = jsonable(page.ast.serialize())
        al = []
        for a in page.static_assets:
            try:
                ck = a.get_checksum() if a.can_upload() else None
            except OSError:
                ck = "oserror"
            al.append([a.fileid.as_posix(), a.key, ck])
        assets[k.as_posix()] = sorted(al, key=str)
    diags = {}
    for k, ds in backend.diagnostics.items():
        lst = sorted([type(d).__name__, d.start[0], d.message] for d in ds)
        if lst:
            diags[k.as_posix()] = lst
    return {"pages": pages, "assets": assets, "diagnostics": diags, "metadata": jsonable(backend.metadata)}


def build(root, load, save=False):
    """what `snooty build` / `snooty create-cache` do (main.py): Project(), load_cache(), build(), update_cache()"""
    _allow_children()
    backend = Recording()
    try:
        project = Project(root, backend, {}, "verif")
        if load:
            project.load_cache()
        project.build(max_workers=1)
        if save:
            project.update_cache()
        stats = None
        with project._get_inner() as inner:
            if inner.cache is not None:
                s = inner.cache.stats
                stats = [s.hits, s.misses, s.errors]
        out = summarize(backend)
        out["stats"] = stats
        return out
    except BaseException as e:   # SystemExit / ProjectLoadError included: the clean build decides what is right
        return {"exc": type(e).__name__, "msg": str(e)[:300], "config_diags": jsonable(
            {k.as_posix(): sorted([type(d).__name__, d.start[0], d.message] for d in v) for k, v in backend.diagnostics.items()})}


def first_diff(a, b, path=""):
    if type(a) != type(b):
        return f"{path}: {json.dumps(a, default=str)[:160]} vs {json.dumps(b, default=str)[:160]}"
    if isinstance(a, dict):
        for k in sorted(set(a) | set(b)):
            if k not in a:
                return f"{path}/{k}: only in clean build: {json.dumps(b[k], default=str)[:200]}"
            if k not in b:
                return f"{path}/{k}: only in cached build: {json.dumps(a[k], default=str)[:200]}"
            d = first_diff(a[k], b[k], f"{path}/{k}")
            if d:
                return d
        return None
    if isinstance(a, list):
        for i, (x, y) in enumerate(zip(a, b)):
            d = first_diff(x, y, f"{path}[{i}]")
            if d:
                return d
        if len(a) != len(b):
            longer, who = (a, "cached") if len(a) > len(b) else (b, "clean")
            return f"{path}[{min(len(a), len(b))}]: only in {who} build: {json.dumps(longer[min(len(a), len(b))], default=str)[:200]}"
        return None
    if a != b:
        return f"{path}: cached {json.dumps(a, default=str)[:160]} clean {json.dumps(b, default=str)[:160]}"
    return None


def diff_builds(cached, clean):
    """[(category, description)] — empty when the two builds delivered the same thing"""
    if "exc" in cached or "exc" in clean:
        if cached.get("exc") != clean.get("exc") or cached.get("config_diags") != clean.get("config_diags"):
            return [("crash", f"cached build: {cached.get('exc')} {cached.get('msg', '')!r}; clean build: {clean.get('exc')} {clean.get('msg', '')!r}")]
        return []
    out = []
    for part in ("pages", "assets", "diagnostics", "metadata"):
        d = first_diff(cached[part], clean[part], part)
        if d:
            out.append((part, d))
    return out


def audit_project(root):
    """(1) obligation check. returns [{"path", "kind", "site", "page"}] of accesses under source/ that the page
    did not record; site = the snooty function that looked."""
    _allow_children()
    out = []
    backend = Recording()
    try:
        project = Project(root, backend, {}, "verif")
    except BaseException:
        return out, 0
    nparses = 0
    with project._get_inner() as inner:
        src = inner.config.source_path
        paths = list(util.get_files(src, util.RST_EXTENSIONS, inner.config.root, {}))
        for path in paths:
            fileid = inner.config.get_fileid(path)
            with fsaudit.audit(src) as rec:
                try:
                    results = parse_rst(inner.parser, fileid)
                    for page, diags in results:
                        page.finish(list(diags), inner)
                except BaseException:
                    continue
            nparses += 1
            allowed = {fileid.as_posix()}
            uncacheable = False
            for page, _ in results:
                deps = page.dependencies.dependencies
                if deps is None:
                    uncacheable = True
                else:
                    allowed.update(os.path.normpath(k.as_posix()) for k in deps)
            if uncacheable:
                continue
            seen = set()
            for rel, kind, site, emb in rec.events:
                if rel in allowed or rel == "." or (rel, site) in seen:
                    continue
                seen.add((rel, site))
                out.append({"path": rel, "kind": kind, "site": site, "page": fileid.as_posix()})
        # giza: the cache is valid iff the set of yaml files and their text hashes are unchanged (validate_cache),
        # plus whatever the generated pages recorded
        with fsaudit.audit(src) as rec:
            try:
                alld = collections.defaultdict(list)
                ypages = list(inner.yaml_domain.load_and_generate(alld, None))
                for page, diags in ypages:
                    page.finish(list(diags), inner)
            except BaseException:
                ypages = []
        nparses += len(ypages)
        allowed = set()
        for page, _ in ypages:
            deps = page.dependencies.dependencies
            if deps is not None:
                allowed.update(os.path.normpath(k.as_posix()) for k in deps)
        seen = set()
        for rel, kind, site, emb in rec.events:
            if kind in ("os.scandir", "os.listdir") or rel.endswith(".yaml") or rel in allowed or rel == ".":
                continue
            if not emb and not site.startswith("PendingFigure"):
                continue      # directory walk of categorize()
            s = "giza:" + site
            if (rel, s) in seen:
                continue
            seen.add((rel, s))
            out.append({"path": rel, "kind": kind, "site": s, "page": "(giza)"})
    return out, nparses


def config_reads_at_parse_time():
    """names of the ProjectConfig dataclass fields read during parse_rst + Page.finish over a grammar-generated corpus
    (every directive / role of rstspec.toml, toctrees with associated-product entries, constants, default domains)"""
    import dataclasses
    import random as _random
    from impl import c01gen, rst
    names = {f.name for f in dataclasses.fields(ProjectConfig)}
    reads = set()

    def spy(self, name):
        if name in names:
            reads.add(name)
        return object.__getattribute__(self, name)
    r = _random.Random(11)
    g_docs = []
    for i in range(250):
        g_docs.append(c01gen.Gen(r).doc())
    g_docs.append("T\n=\n\n.. toctree::\n\n   /a\n   Atlas CLI <|atlas-cli|>\n   Other <|nope|>\n\n{+ver+} |prod|\n\n.. default-domain:: mongodb\n\n:doc:`/a`\n")
    cfg = ProjectConfig(rst.ROOT, "verif", constants={"ver": "1"}, substitutions={"prod": "P"})
    n = 0
    ProjectConfig.__getattribute__ = spy
    try:
        for text in g_docs:
            try:
                page, diags = rst.parse(text, cfg=cfg)
                page.finish(list(diags))
                n += 1
            except Exception:
                continue
    finally:
        del ProjectConfig.__getattribute__
    return reads, n


def flip_content(rel):
    if rel.endswith(".png"):
        return {"hex": PNGS[1].hex()}
    if rel.endswith((".txt", ".rst")):
        return {"text": "Flipped\n=======\n\nnew text\n"}
    return {"text": "flipped content\n"}


class Workdir:
    def __init__(self, case):
        self.root = Path(tempfile.mkdtemp(prefix=f"verif-c11-{os.getpid()}-")).resolve()
        self.files = case["files"]
        self.saved_cache = {}
        self.restore()

    def restore(self):
        for p in list(self.root.iterdir()):
            if p.is_dir():
                shutil.rmtree(p)
            else:
                p.unlink()
        (self.root / "source").mkdir()
        for rel, f in self.files.items():
            write_file(self.root, rel, f)
        for name, data in self.saved_cache.items():
            (self.root / name).write_bytes(data)

    def remember_cache(self):
        self.saved_cache = {p.name: p.read_bytes() for p in cache_files(self.root)}

    def apply(self, op, rng_free=True):
        root = self.root
        kind = op["op"]
        if kind == "write":
            write_file(root, op["path"], op)
        elif kind == "delete":
            delete_path(root, op["path"])
        elif kind == "cache":
            files = cache_files(root)
            how = op["how"]
            if how == "rename":
                # a cache written under another specifier sits under the name the current configuration expects
                if files:
                    try:
                        cfg, _ = ProjectConfig.open(root)
                        target = parse_cache.ParseCache(cfg).path
                        if target != files[0]:
                            shutil.copyfile(files[0], target)
                    except BaseException:
                        pass
                return
            if how == "entry":
                # damage the pickled (Page, diagnostics) of single entries inside an otherwise valid cache file
                for f in files:
                    try:
                        cd = pickle.loads(gzip.decompress(f.read_bytes()))

                        def damaged(raw):
                            return {"truncate": raw[: len(raw) // 2], "garbage": b"\x00junk", "empty": b"", "tail": raw[:-1] + b"X",
                                    "wrongtype": pickle.dumps(["not", "what", "was", "stored"]),
                                    # the right shape (a pair) holding the wrong things
                                    "wrongpair": pickle.dumps(("not a page", [])),
                                    "wrongdiags": pickle.dumps((None, ["not a diagnostic"]))}[op["mode"]]
                        where = op.get("where", "pages")
                        if where == "yaml":
                            # the pickled GizaFile of single YAML files
                            slots = [(cat, fid) for cat in sorted(cd.yaml_nodes) for fid in sorted(cd.yaml_nodes[cat])]
                            for i, (cat, fid) in enumerate(slots):
                                if op["which"] == "all" or i == op["which"] % max(1, len(slots)):
                                    h, raw = cd.yaml_nodes[cat][fid]
                                    cd.yaml_nodes[cat][fid] = (h, damaged(raw))
                        elif where == "orphans":
                            for i, k in enumerate(sorted(cd.orphan_diagnostics)):
                                if op["which"] == "all" or i == op["which"] % max(1, len(cd.orphan_diagnostics)):
                                    cd.orphan_diagnostics[k] = damaged(cd.orphan_diagnostics[k])
                        keys = sorted(cd.pages) if where == "pages" else []
                        for i, k in enumerate(keys):
                            if op["which"] == "all" or i == op["which"] % max(1, len(keys)):
                                cd.pages[k] = damaged(cd.pages[k])
                        f.write_bytes(gzip.compress(pickle.dumps(cd, protocol=5), mtime=0))
                    except Exception:
                        pass
                return
            if how == "directory":
                # something that is not a readable file sits where the cache file is expected
                for f in files:
                    if f.is_file():
                        f.unlink()
                        f.mkdir()
                return
            for f in files:
                if not f.is_file():
                    continue
                data = f.read_bytes()
                if how == "truncate":
                    data = data[: int(len(data) * op["at"])]
                elif how == "overwrite":
                    off = int(len(data) * op["at"])
                    n = op["len"]
                    data = data[:off] + bytes((op["byte"] + i * op.get("step", 0)) % 256 for i in range(min(n, len(data) - off))) + data[off + n:]
                elif how == "garbage":
                    data = bytes.fromhex(op["hex"])
                elif how == "flipbit" and data:
                    off = min(len(data) - 1, int(len(data) * op["at"]))
                    data = data[:off] + bytes([data[off] ^ (1 << op["bit"])]) + data[off + 1:]
                f.write_bytes(data)
        else:
            raise ValueError(kind)

    def cached_vs_clean(self):
        cached = build(self.root, load=True)
        for f in cache_files(self.root):
            if f.is_dir():
                shutil.rmtree(f)
            else:
                f.unlink()
        clean = build(self.root, load=False)
        return cached, clean

    def close(self):
        shutil.rmtree(self.root, ignore_errors=True)


# --------------------------------------------------------------------------------------
# lookup / load cases on the real classes
# --------------------------------------------------------------------------------------

def digest(b, size=64):
    return hashlib.blake2b(b, digest_size=size).hexdigest()


class _StubPath:
    def __init__(self, data):
        self.data = data

    def read_bytes(self):
        if self.data is None:
            raise FileNotFoundError(2, "No such file or directory")
        return self.data


class _StubConfig:
    """what CacheData.get uses of a ProjectConfig: read(fileid) and get_full_path(fileid).read_bytes()"""

    def __init__(self, env):
        self.env = env

    def read(self, path):
        v = self.env.get(path.as_posix())
        if v is None:
            raise FileNotFoundError(2, "No such file or directory")
        if v.startswith("!"):      # a source whose read produces diagnostics (undeclared constant, undecodable, merge marker)
            return v[1:], [ConstantNotDeclared("nope", 0)]
        return v, []

    def get_full_path(self, fileid):
        v = self.env.get(fileid.as_posix())
        return _StubPath(None if v is None else v.encode("utf-8"))


def env_after(case, k):
    env = dict(case["env0"])
    for f, v in case["edits"][:k]:
        if v is None:
            env.pop(f, None)
        else:
            env[f] = v
    return env


def lookup_entries(case):
    """[(fileid, source text at record time, deps dict or None, corrupt)]; entries whose page did not exist then are skipped"""
    out = []
    for i, e in enumerate(case["entries"]):
        env = env_after(case, e["at"])
        text = env.get(e["page"])
        if text is None:
            continue
        deps = None
        raw = text
        if text.startswith("!"):
            text = text[1:]          # what config.read returns
        if e["deps"] is not None:
            deps = []
            if raw != text:          # the parser records the raw source file itself (JSONVisitor.add_diagnostics)
                deps.append((e["page"], digest(raw.encode("utf-8"))))
            for f, flavour in e["deps"]:
                cur = env.get(f)
                if flavour == "none" or cur is None:
                    deps.append((f, None))
                elif flavour == "d32":
                    deps.append((f, digest(cur.encode("utf-8"), 32)))
                else:
                    deps.append((f, digest(cur.encode("utf-8"))))
        out.append((i, e["page"], text, deps, e.get("corrupt")))
    return out


class C11(core.PropertyCheck):
    id = "C11"
    parallel = True
    quick_budget = 1500
    thorough_budget = 15000
    level = "proof"
    rule = ("e2e: generated project (2-4 rst pages in nested dirs, an include, literalincludes of present/missing files, figures/"
            "images present/missing, card urls, steps + extracts YAML whose content uses :doc:/literalinclude/figure, :doc: links to "
            "present/missing pages, openapi spec file, constants/substitutions/default_domain in snooty.toml, optionally a page "
            "that is not valid UTF-8) -> create-cache -> 1-4 operations drawn from: modify/create/delete any file the project "
            "mentions (incl. paths missing at cache time), add/delete pages, change constants/substitutions/default_domain/title, "
            "truncate / overwrite / bit-flip / replace the cache file, damage single pickled entries inside a valid file, place the old cache under the new specifier's file name "
            "-> cached build vs clean build. lookup: 1-3 entries recorded at different points of a 0-4 step edit history over "
            "<=5 files, deps present/missing/uncacheable/32-byte digests, corrupt pickles. load: 12 file variants. "
            "non-trivial e2e = the cached build had at least one cache hit or the history touched a dependency")
    assumptions = [
        "blake2b is collision-free (Function.Injective hash / srcKey in cache_transparent); structural_hash is collision-free on configs and specs (specifier_injective)",
        "pickle/gzip round trip is faithful and a cache file that passes gunzip+unpickle+isinstance checks was written by persist() (the decode/encode parameters of cache_file_transparent); corruption that survives the gzip CRC is outside the model but is exercised by the differential",
        "FOOTPRINT law of the parser (its output is a function of the files it looks at, the config and the spec) is a hypothesis; the harness checks the part that matters, DepsCoverReads, by auditing open/stat/scandir calls of every generated parse",
        "symlink probing by Path.resolve (os.lstat) is not audited; generated projects contain no symlinks",
        "the source tree does not change during a build; remote assets (sharedinclude, intersphinx, remote openapi) are not generated (remote openapi marks the page uncacheable)",
        "Project.build() is driven exactly like main.py does (Project(); load_cache(); build(); update_cache()) with max_workers=1",
    ]
    extra_trusted = ["harness/impl/fsaudit.py (audit hook + os.stat wrapper) sees every file access of the parser: validated on each run against the known literalinclude / image / :doc: reads"]

    # ---- hypotheses -------------------------------------------------------------------
    def static_obligations(self):
        out = []
        # the audit sees the reads we know about (guards against a blind auditor)
        case = {"files": {
            "snooty.toml": {"text": 'name = "c11"\n'},
            "source/index.txt": {"text": "T\n=\n\n:doc:`/other` :doc:`/ghost`\n\n.. literalinclude:: /code.py\n\n.. figure:: /pic.png\n   :alt: p\n\n.. image:: /nopic.png\n   :alt: q\n"},
            "source/other.txt": {"text": "O\n=\n"}, "source/code.py": {"text": "x\n"}, "source/pic.png": {"hex": PNGS[0].hex()}}}
        w = Workdir(case)
        try:
            with fsaudit.audit(w.root / "source") as rec:
                p = Project(w.root, Recording(), {}, "verif")
                with p._get_inner() as inner:
                    for page, d in parse_rst(inner.parser, FileId("index.txt")):
                        page.finish(list(d), inner)
            seen = {e[0] for e in rec.events}
            want = {"other.txt", "ghost.txt", "code.py", "pic.png", "nopic.png", "index.txt"}
            out.append(("file-access audit observes every known parse-time read (page, :doc: present+missing, literalinclude, image present+missing)",
                        want <= seen, f"missing from audit: {sorted(want - seen)}"))
        finally:
            w.close()
        # configuration footprint: every ProjectConfig field a parse reads is part of the cache specifier (not `nohash`),
        # except the project location (files reached through it are recorded dependency by dependency)
        try:
            reads, nparsed = config_reads_at_parse_time()
            import dataclasses as _dc
            unhashed = {f.name for f in _dc.fields(ProjectConfig) if f.metadata.get("nohash")}
            bad = sorted((reads & unhashed) - {"root"})
            out.append((f"every ProjectConfig field read while parsing ({nparsed} documents; fields read: {sorted(reads)}) is hashed into the cache specifier",
                        not bad and "associated_products" in reads and "default_domain" in reads,
                        f"read at parse time but excluded from the specifier: {bad}" if bad else f"audit is blind: {sorted(reads)}"))
        except Exception as e:
            out.append(("configuration-read audit ran", False, f"{type(e).__name__}: {e}"))
        # clean builds are deterministic (otherwise the differential would raise false alarms)
        w = Workdir(case)
        try:
            a = build(w.root, load=False)
            b = build(w.root, load=False)
            a.pop("stats", None), b.pop("stats", None)
            out.append(("two clean builds of one directory are identical (differential has no noise)", a == b, str(first_diff(a, b))[:200]))
        finally:
            w.close()
        return out

    # ---- generation: projects ----------------------------------------------------------
    PAGES = ["index.txt", "a.txt", "guide/b.txt", "guide/deep/c.rst"]
    GHOSTS = ["ghost.txt", "guide/ghost2.txt"]
    CODE = ["code/ex.py", "code/noex.py", "guide/local.js"]
    IMAGES = ["images/pic.png", "images/nopic.png", "guide/shot.png"]

    def gen_block(self, rng, page, embedded=False):
        def doc():
            t = rng.choice(self.PAGES + self.GHOSTS)
            t = "/" + t.rsplit(".", 1)[0]
            return rng.choice([f":doc:`{t}`", f":doc:`label <{t}>`"])
        r = rng.random()
        if r < 0.24:
            const = rng.choice(["{+ver+}"] * 5 + ["{+nope+}", "{+nope2+}", "\u200b"])
            return f"Para {rng.randint(0, 3)} {const} |prod| {doc()} and {doc()}."
        if r < 0.40:
            f = rng.choice(self.CODE)
            if f.startswith("guide/") and page.startswith("guide/") and page.count("/") == 1 and rng.random() < 0.5:
                arg = f.split("/", 1)[1]
            else:
                arg = "/" + f
            return f".. literalinclude:: {arg}\n   :language: python"
        if r < 0.56:
            f = rng.choice(self.IMAGES)
            d = rng.choice(["figure", "image"])
            return f".. {d}:: /{f}\n   :alt: an image"
        if r < 0.64 and not embedded:
            return ".. include:: /includes/fact.rst"
        if r < 0.72 and not embedded:
            return rng.choice([".. include:: /includes/steps/setup.rst", ".. include:: /includes/extracts/note-one.rst",
                               ".. include:: /includes/extracts/note-two.rst", ".. include:: /includes/extracts/note-three.rst"])
        if r < 0.80:
            t = "/" + rng.choice(self.PAGES + self.GHOSTS).rsplit(".", 1)[0]
            return f".. card-group::\n   :columns: 2\n\n   .. card::\n      :headline: Head\n      :url: {t}\n\n      Card text."
        if r < 0.86 and not embedded:
            return ".. openapi:: /spec.json"
        if r < 0.93:
            return rng.choice(["See :method:`db.coll.find()` and :data:`some.data`.", ".. data:: some.data\n\n   A datum."])
        return f".. _label-{rng.randint(0, 3)}:\n\nLabelled {{+ver+}} paragraph."

    def gen_page(self, rng, page, title=None):
        title = title or f"Page {page.split('/')[-1].split('.')[0]} {rng.randint(0, 9)}"
        blocks = [self.gen_block(rng, page) for _ in range(rng.randint(1, 4))]
        body = "\n\n".join(blocks)
        return "=" * len(title) + "\n" + title + "\n" + "=" * len(title) + "\n\n" + body + "\n"

    def gen_yaml(self, rng, kind):
        def content():
            bl = [self.gen_block(rng, "includes/x.yaml", embedded=True) for _ in range(rng.randint(1, 2))]
            if rng.random() < 0.5:
                # a giza placeholder that only a PROJECT CONSTANT defines: filled in when the entry is rendered, not when the text
                # of the file is read - the text (and its hash) stays the same when the constant changes
                bl.append("Runs with version {{ver}}.")
            return "\n\n".join(bl).replace("\n", "\n  ")
        if kind == "steps":
            return f"title: Set up {rng.randint(0, 9)}\nref: setup-one\ncontent: |\n  {content()}\n...\n"
        # one page per entry: every generated page has dependencies of its own (a file read by the second entry only must
        # invalidate the cached file just as one read by the first)
        refs = ["note-one", "note-two", "note-three"][: rng.choice([1, 2, 2, 3])]
        return "---\n".join(f"ref: {r}\ncontent: |\n  {content()}\n" for r in refs) + "...\n"

    def gen_project(self, rng):
        cfg = {"name": "c11", "title": "Title", "constants": {"ver": rng.choice(["1.0", "2.1"])},
               "substitutions": {"prod": rng.choice(["**Prod**", "Product"])}}
        if rng.random() < 0.3:
            cfg["default_domain"] = rng.choice(["py", "mongodb"])
        files = {"snooty.toml": {"text": render_toml(cfg)}}
        pages = ["index.txt"] + [p for p in self.PAGES[1:] if rng.random() < 0.6]
        for p in pages:
            text = self.gen_page(rng, p)
            if p == "index.txt":
                text += "\n.. toctree::\n\n" + "".join(f"   /{q.rsplit('.', 1)[0]}\n" for q in pages[1:])
                if rng.random() < 0.35:
                    # an entry of another (associated) project: kept or dropped + reported AT PARSE TIME depending on snooty.toml
                    text += "   Atlas CLI <|atlas-cli|>\n"
                    if rng.random() < 0.5:
                        cfg["associated_products"] = ["atlas-cli"]
                        files["snooty.toml"] = {"text": render_toml(cfg)}
            files["source/" + p] = {"text": text}
        files["source/includes/fact.rst"] = {"text": self.gen_block(rng, "includes/fact.rst", embedded=True) + "\n"}
        if rng.random() < 0.8:
            files["source/includes/steps-setup.yaml"] = {"text": self.gen_yaml(rng, "steps")}
        if rng.random() < 0.8:
            files["source/includes/extracts-notes.yaml"] = {"text": self.gen_yaml(rng, "extracts")}
        if rng.random() < 0.12:
            # a YAML file that cannot even be decoded: it reads as empty text plus a diagnostic
            files["source/includes/" + rng.choice(["steps-setup.yaml", "extracts-notes.yaml"])] = {"hex": (b"ref: a\ncontent: caf\xe9\n").hex()}
        if rng.random() < 0.25:
            # a YAML file that cannot be parsed generates no page: its diagnostics belong to no page ("orphan")
            files["source/includes/" + rng.choice(["extracts-bad.yaml", "steps-bad.yaml"])] = {"text": rng.choice(["title: foo\n  bad: [\n", "- just\n- a list\n", "ref: [unclosed\n"])}
        for c in self.CODE:
            if c != "code/noex.py" and rng.random() < 0.8:
                files["source/" + c] = {"text": f"print({rng.randint(0, 99)})\n"}
        for im in self.IMAGES:
            if im != "images/nopic.png" and rng.random() < 0.8:
                files["source/" + im] = {"hex": rng.choice(PNGS[:3]).hex()}
        if rng.random() < 0.7:
            files["source/spec.json"] = {"text": json.dumps({"openapi": "3.0.0", "info": {"title": "t", "version": str(rng.randint(1, 9))}, "paths": {}})}
        if rng.random() < 0.08:
            files["source/bad.txt"] = {"hex": (b"Bad\n===\n\ntext \xff more\n").hex()}
        return {"kind": "e2e", "cfg": cfg, "files": files}

    def gen_op(self, rng, case, cfg):
        files = case["files"]
        mentioned = (["source/" + p for p in self.PAGES + self.GHOSTS + self.CODE + self.IMAGES]
                     + ["source/includes/fact.rst", "source/includes/steps-setup.yaml", "source/includes/extracts-notes.yaml",
                        "source/spec.json", "source/bad.txt", "source/new/page.txt"])
        r = rng.random()
        if r < 0.10:
            c = copy.deepcopy(cfg)
            what = rng.choice(["const", "const", "subst", "domain", "title", "landing", "assoc", "assoc", "eol", "canonical"])
            if what == "const":
                c["constants"]["ver"] = rng.choice(["1.0", "2.1", "3.0-rc"])
            elif what == "subst":
                c["substitutions"]["prod"] = rng.choice(["**Prod**", "Product", ":doc:`/a`"])
            elif what == "domain":
                c["default_domain"] = None if c.get("default_domain") else rng.choice(["py", "py", "mongodb"])
            elif what == "title":
                c["title"] = rng.choice(["Title", "Other title"])
            elif what == "assoc":
                c["associated_products"] = [] if c.get("associated_products") else [rng.choice(["atlas-cli", "atlas-cli", "other-product"])]
            elif what == "eol":
                c["eol"] = not c.get("eol")
            elif what == "canonical":
                c["canonical"] = None if c.get("canonical") else "https://example.com/docs"
            else:
                c["toc_landing_pages"] = [] if c.get("toc_landing_pages") else ["/a"]
            cfg.clear(), cfg.update(c)
            return {"op": "write", "path": "snooty.toml", "text": render_toml(c)}
        if r < 0.22:
            how = rng.choice(["truncate", "overwrite", "flipbit", "garbage", "rename", "rename", "entry", "entry", "entry", "directory"])
            op = {"op": "cache", "how": how}
            if how == "entry":
                op.update(which=rng.choice(["all", 0, 1, 2, 3]), mode=rng.choice(["truncate", "garbage", "empty", "tail", "wrongtype", "wrongpair", "wrongpair", "wrongdiags"]),
                          where=rng.choice(["pages", "pages", "yaml", "yaml", "orphans"]))
            if how == "truncate":
                op["at"] = rng.choice([0.0, 0.01, 0.5, 0.9, 0.99, rng.random()])
            elif how == "overwrite":
                op.update(at=rng.random(), len=rng.choice([1, 4, 64, 4096]), byte=rng.randint(0, 255), step=rng.choice([0, 1, 7]))
            elif how == "flipbit":
                op.update(at=rng.random(), bit=rng.randint(0, 7))
            elif how == "garbage":
                op["hex"] = rng.choice([b"", b"\x1f\x8b\x08\x00", gzip.compress(b"junk"), gzip.compress(pickle.dumps({"a": 1})),
                                        gzip.compress(pickle.dumps(parse_cache.CacheData(("x",)))), os.urandom(0) + b"\x80\x05."]).hex()
            return op
        if r < 0.30:
            # an edit that removes the CAUSE of a read diagnostic but leaves the decoded, constant-substituted text as it was:
            # an undeclared constant (rendered as U+200B) replaced by a literal U+200B; an undecodable file (read as empty
            # text) replaced by an empty file. The cache key of the file's text does not change - the diagnostics must.
            cands = [f for f, v in sorted(files.items()) if f.startswith("source/") and (("text" in v and ("{+nope+}" in v["text"] or "{+nope2+}" in v["text"])) or
                                                                                          ("hex" in v and f.endswith((".txt", ".rst", ".yaml"))))]
            if cands:
                f = rng.choice(cands)
                v = files[f]
                if "text" in v:
                    return {"op": "write", "path": f, "text": v["text"].replace("{+nope+}", "\u200b").replace("{+nope2+}", "\u200b")}
                return {"op": "write", "path": f, "text": ""}
        path = rng.choice(mentioned)
        exists_now = path in files
        if exists_now and rng.random() < 0.35 and path != "source/index.txt":
            return {"op": "delete", "path": path}
        rel = path[len("source/"):]
        if path.endswith(".png"):
            return {"op": "write", "path": path, "hex": rng.choice(PNGS).hex()}
        if path.endswith((".txt", ".rst")) and "includes/" not in path:
            if path == "source/bad.txt" or rng.random() < 0.04:
                pos = rng.randint(0, 12)
                if rng.random() < 0.2:
                    return {"op": "write", "path": path, "text": ""}
                return {"op": "write", "path": path, "hex": (b"B\n=\n\n" + b"x" * pos + b"\xff tail\n").hex()}
            text = self.gen_page(rng, rel)
            if exists_now and "text" in files[path] and rng.random() < 0.4:
                text = files[path]["text"] + "\nAppended {+ver+} line.\n"
            return {"op": "write", "path": path, "text": text}
        if path.endswith("fact.rst"):
            return {"op": "write", "path": path, "text": self.gen_block(rng, rel, embedded=True) + "\n"}
        if path.endswith("steps-setup.yaml"):
            return {"op": "write", "path": path, "text": self.gen_yaml(rng, "steps")}
        if path.endswith("extracts-notes.yaml"):
            return {"op": "write", "path": path, "text": self.gen_yaml(rng, "extracts")}
        if path.endswith(".json"):
            return {"op": "write", "path": path, "text": json.dumps({"openapi": "3.0.0", "info": {"title": "t", "version": str(rng.randint(10, 99))}, "paths": {}})}
        return {"op": "write", "path": path, "text": f"print({rng.randint(100, 999)})\n"}

    def gen_e2e(self, rng):
        case = self.gen_project(rng)
        cfg = copy.deepcopy(case["cfg"])
        sim = {"files": dict(case["files"])}
        hist = []
        for _ in range(rng.choice([1, 1, 2, 2, 3, 4])):
            op = self.gen_op(rng, sim, cfg)
            hist.append(op)
            if op["op"] == "write":
                sim["files"][op["path"]] = {k: v for k, v in op.items() if k in ("text", "hex")}
            elif op["op"] == "delete":
                sim["files"].pop(op["path"], None)
        case["history"] = hist
        if rng.random() < 0.3:
            # the history goes on after a cached build took place in the same process (a language server, a watch loop): what that
            # build learnt about the files of its time must not outlive it
            hist2 = []
            for _ in range(rng.choice([1, 1, 2])):
                op = self.gen_op(rng, sim, cfg)
                if op["op"] == "cache":
                    continue
                hist2.append(op)
                if op["op"] == "write":
                    sim["files"][op["path"]] = {k: v for k, v in op.items() if k in ("text", "hex")}
                elif op["op"] == "delete":
                    sim["files"].pop(op["path"], None)
            case["history2"] = hist2
        del case["cfg"]
        return case

    # ---- generation: lookup / load ------------------------------------------------------
    LFILES = ["p.txt", "q.txt", "dep.py", "img.png", "ghost.txt"]

    def gen_lookup(self, rng):
        env0 = {f: rng.choice(["alpha", "beta", ""]) for f in self.LFILES if rng.random() < 0.7}
        if rng.random() < 0.9:
            env0["p.txt"] = rng.choice(["alpha", "beta", "!alpha"])
        edits = []
        for _ in range(rng.choice([0, 0, 1, 1, 2, 3, 4])):
            f = rng.choice(self.LFILES)
            edits.append([f, rng.choice([None, "alpha", "beta", "gamma"] + (["!alpha", "!beta"] if f == "p.txt" else []))])
        entries = []
        for _ in range(rng.choice([1, 1, 2, 3])):
            deps = None
            if rng.random() < 0.9:
                deps = [[f, rng.choice(["std", "std", "std", "d32", "none"])] for f in self.LFILES[1:] if rng.random() < 0.45]
            entries.append({"page": rng.choice(["p.txt", "p.txt", "q.txt"]), "at": rng.randint(0, len(edits)), "deps": deps,
                            "corrupt": rng.choice([None] * 8 + ["garbage", "truncated", "empty"])})
        return {"kind": "lookup", "page": "p.txt", "env0": env0, "edits": edits, "entries": entries}

    LOAD_VARIANTS = ["valid", "other-version", "other-config", "other-spec", "short-spec", "list-spec", "nonstr-spec",
                     "not-cachedata", "garbage", "empty", "truncated", "not-gzip"]

    def generate(self, rng, budget, tier):
        n_e2e = budget
        if tier != "search":
            for v in self.LOAD_VARIANTS:
                yield {"kind": "load", "variant": v, "cut": 0.5}
            for _ in range(10):
                yield {"kind": "load", "variant": "truncated", "cut": rng.random()}
            for _ in range(budget * 3):
                yield self.gen_lookup(rng)
        else:
            n_e2e = max(60, budget // 10)
            for _ in range(budget // 2):
                yield self.gen_lookup(rng)
        for _ in range(n_e2e):
            yield self.gen_e2e(rng)

    def shrink_candidates(self, case):
        if case["kind"] == "lookup":
            for i in range(len(case["edits"])):
                c = copy.deepcopy(case)
                del c["edits"][i]
                for e in c["entries"]:
                    if e["at"] > i:
                        e["at"] -= 1
                yield c
            for i in range(len(case["entries"])):
                if len(case["entries"]) > 1:
                    c = copy.deepcopy(case)
                    del c["entries"][i]
                    yield c
            for i, e in enumerate(case["entries"]):
                for j in range(len(e["deps"] or [])):
                    c = copy.deepcopy(case)
                    del c["entries"][i]["deps"][j]
                    yield c
            return
        if case["kind"] != "e2e":
            return
        if case.get("history2"):
            c = copy.deepcopy(case)
            c["history"] = c["history"] + c.pop("history2")   # the same edits without the cached build in between
            yield c
            for i in range(len(case["history2"])):
                c = copy.deepcopy(case)
                del c["history2"][i]
                yield c
        for i in range(len(case["history"])):
            if len(case["history"]) > 1:
                c = copy.deepcopy(case)
                del c["history"][i]
                yield c
        for rel in list(case["files"]):
            if rel not in ("snooty.toml", "source/index.txt"):
                c = copy.deepcopy(case)
                del c["files"][rel]
                yield c
        for rel, f in case["files"].items():
            if "text" in f and rel.endswith((".txt", ".rst")):
                blocks = f["text"].split("\n\n")
                for i in range(1, len(blocks)):
                    c = copy.deepcopy(case)
                    c["files"][rel]["text"] = "\n\n".join(blocks[:i] + blocks[i + 1:])
                    if not c["files"][rel]["text"].endswith("\n"):
                        c["files"][rel]["text"] += "\n"
                    yield c
        for hi, op in enumerate(case["history"]):
            if op["op"] == "write" and "text" in op and op["path"].endswith((".txt", ".rst")):
                blocks = op["text"].split("\n\n")
                for i in range(1, len(blocks)):
                    c = copy.deepcopy(case)
                    c["history"][hi]["text"] = "\n\n".join(blocks[:i] + blocks[i + 1:]) + "\n"
                    yield c

    # ---- implementation ---------------------------------------------------------------
    def run_impl(self, case):
        kind = case["kind"]
        if kind == "lookup":
            return self.run_lookup(case)
        if kind == "load":
            return self.run_load(case)
        return self.run_e2e(case)

    def run_e2e(self, case):
        w = Workdir(case)
        try:
            unrecorded, nparses = audit_project(w.root) if case.get("audit", True) else ([], 0)
            w.restore()
            first = build(w.root, load=True, save=True)
            if "exc" in first:
                return {"kind": "e2e", "unbuildable": first["exc"], "unrecorded": unrecorded, "diff": [], "directed": [], "parses": nparses}
            w.remember_cache()
            for op in case["history"]:
                w.apply(op)
            if case.get("history2"):
                build(w.root, load=True)   # a cached build in between (nothing is saved): only its process-wide leftovers matter
                for op in case["history2"]:
                    w.apply(op)
            cached, clean = w.cached_vs_clean()
            diff = diff_builds(cached, clean)
            touched = {op["path"][len("source/"):] for op in case["history"] + case.get("history2", []) if op["op"] in ("write", "delete") and op["path"].startswith("source/")}
            blame = sorted({u["site"] for u in unrecorded if u["path"] in touched})
            directed = []
            seen = set()
            for u in unrecorded:
                if (u["path"], u["site"]) in seen or len(seen) >= 6:
                    continue
                seen.add((u["path"], u["site"]))
                rel = "source/" + u["path"]
                exists = (w.root / rel).exists() if False else (rel in case["files"])
                flips = [{"op": "delete", "path": rel}, {"op": "write", "path": rel, **flip_content(rel)}] if exists \
                    else [{"op": "write", "path": rel, **flip_content(rel)}]
                for fl in flips:
                    w.restore()
                    w.apply(fl)
                    c2, n2 = w.cached_vs_clean()
                    d2 = diff_builds(c2, n2)
                    directed.append({"site": u["site"], "flip": fl, "diff": d2[:2]})
            return {"kind": "e2e", "unrecorded": unrecorded, "diff": diff[:3], "blame": blame, "directed": directed,
                    "stats": cached.get("stats"), "first_stats": first.get("stats"), "parses": nparses,
                    "cached_exc": cached.get("exc"), "clean_exc": clean.get("exc"),
                    "n_pages": len(clean.get("pages", {})), "n_diags": sum(len(v) for v in clean.get("diagnostics", {}).values())}
        finally:
            w.close()

    def run_lookup(self, case):
        cd = parse_cache.CacheData(("x",))
        for i, page, text, deps, corrupt in lookup_entries(case):
            pg = Page.create(FileId(page), f"entry{i}", text)
            pg.dependencies = FileCacheMapping(None if deps is None else {FileId(f): h for f, h in deps})
            cd.set_page(pg, [])
            if corrupt:
                key = (page, pg.blake2b)
                raw = cd.pages[key]
                cd.pages[key] = {"garbage": b"\x00garbage", "truncated": raw[: len(raw) // 2], "empty": b""}[corrupt]
        env = env_after(case, len(case["edits"]))
        try:
            page, _ = cd.get(_StubConfig(env), FileId(case["page"]))
            return {"kind": "lookup", "decision": "hit", "entry": int(page.output_filename[5:]),
                    "stats": [cd.stats.hits, cd.stats.misses, cd.stats.errors]}
        except parse_cache.CacheMiss:
            return {"kind": "lookup", "decision": "miss", "stats": [cd.stats.hits, cd.stats.misses, cd.stats.errors]}
        except Exception as e:
            return {"kind": "lookup", "decision": type(e).__name__}

    def load_bytes(self, case, pc):
        v = case["variant"]
        spec = pc.specifier
        obj = None
        if v == "valid":
            obj = parse_cache.CacheData(spec)
        elif v == "other-version":
            obj = parse_cache.CacheData(("0.0.0",) + spec[1:])
        elif v == "other-config":
            obj = parse_cache.CacheData((spec[0], "00" * 20, spec[2]))
        elif v == "other-spec":
            obj = parse_cache.CacheData((spec[0], spec[1], "ff" * 20))
        elif v == "short-spec":
            obj = parse_cache.CacheData(spec[:2])
        elif v == "list-spec":
            obj = parse_cache.CacheData(list(spec))
        elif v == "nonstr-spec":
            obj = parse_cache.CacheData((spec[0], 1, spec[2]))
        elif v == "not-cachedata":
            obj = {"specifier": spec}
        if obj is not None:
            return gzip.compress(pickle.dumps(obj, protocol=5)), (list(obj.specifier) if isinstance(obj, parse_cache.CacheData) else [])
        good = gzip.compress(pickle.dumps(parse_cache.CacheData(spec), protocol=5))
        if v == "garbage":
            return b"\x1f\x8b\x08garbage", []
        if v == "empty":
            return b"", []
        if v == "truncated":
            return good[: int(len(good) * case["cut"])], []
        if v == "not-gzip":
            return pickle.dumps(parse_cache.CacheData(spec), protocol=5), []
        raise ValueError(v)

    def run_load(self, case):
        pc = parse_cache.ParseCache(ProjectConfig(Path("/nonexistent"), "c11"))
        data, _ = self.load_bytes(case, pc)
        try:
            r = pc.read_from_bytes(data)
        except Exception as e:
            return {"kind": "load", "load": "raised " + type(e).__name__}
        return {"kind": "load", "load": "loaded" if r is not None else "rejected"}

    # ---- model ------------------------------------------------------------------------
    def model_request(self, case):
        if case["kind"] == "lookup":
            env = env_after(case, len(case["edits"]))
            entries = []
            for i, page, text, deps, corrupt in lookup_entries(case):
                # the model's stand-in for the page file is its source key, prefixed with "!" when unclean
                entries.append({"fileid": page, "key": digest(text.encode("utf-8")), "ok": not corrupt, "idx": i,
                                "deps": None if deps is None else [[f, ("!" + digest(text.encode("utf-8"))) if (f == page and h is not None) else h]
                                                                   for f, h in deps]})
            return {"op": "c11.lookup", "page": case["page"],
                    "env": [[f, ("!" + digest(v[1:].encode("utf-8"))) if (f == case["page"] and v.startswith("!")) else digest(v.encode("utf-8"))]
                            for f, v in env.items()],
                    "entries": entries}
        if case["kind"] == "load":
            pc = parse_cache.ParseCache(ProjectConfig(Path("/nonexistent"), "c11"))
            _, fs = self.load_bytes(case, pc)
            decodes = case["variant"] in ("valid", "other-version", "other-config", "other-spec", "short-spec")
            return {"op": "c11.load", "decodes": decodes, "file_spec": [str(x) for x in fs], "cur": list(pc.specifier)}
        return {"op": "c11.obligation"}

    def compare(self, case, model, impl):
        if case["kind"] == "lookup":
            idx = [i for i, *_ in lookup_entries(case)]
            want = model["decision"]
            if want != impl["decision"]:
                return f"lookup decision: model {want}, CacheData.get {impl['decision']}"
            if want == "hit" and idx[model["entry"]] != impl["entry"]:
                return f"lookup hit returned entry {impl['entry']}, model {idx[model['entry']]}"
            return None
        if case["kind"] == "load":
            if model["load"] != impl["load"]:
                return f"read_from_bytes: model {model['load']}, implementation {impl['load']}"
            return None
        # e2e: the hypothesis under which `cache_transparent` speaks about this implementation
        bad = self.obligation_failures(impl)
        if bad:
            u = bad[0]
            return (f"{model.get('hypothesis')} (hypothesis of {model.get('theorem')}) fails: parse of {u['page']} looked at {u['path']} "
                    f"({u['kind']}) in {u['site']} without recording a dependency")
        return None

    def obligation_failures(self, impl):
        known = core.load_known(self.id)
        return [u for u in impl.get("unrecorded", []) if f"unrecorded-read:{u['site']}" not in known]

    # ---- direct oracle ------------------------------------------------------------------
    def oracle(self, case, impl):
        kind = case["kind"]
        if kind == "load":
            if impl["load"].startswith("raised"):
                return f"crash: read_from_bytes {impl['load']} on variant {case['variant']}"
            if impl["load"] == "loaded" and case["variant"] != "valid":
                return f"bad-load: cache file variant {case['variant']} was accepted"
            return None
        if kind == "lookup":
            if impl["decision"] not in ("hit", "miss", "FileNotFoundError"):
                return f"crash: CacheData.get raised {impl['decision']}"
            if impl["decision"] == "hit":
                # the property, judged from the case alone: the entry must have been recorded from exactly what is on disk now
                e = case["entries"][impl["entry"]]
                then, now = env_after(case, e["at"]), env_after(case, len(case["edits"]))
                if e.get("corrupt"):
                    return "stale-hit: an entry whose pickle is corrupt was returned"
                if e["page"] != case["page"] or then.get(e["page"]) != now.get(case["page"]):
                    return "stale-hit: the page source differs from the source the entry was made from"
                if e["deps"] is None:
                    return "stale-hit: an uncacheable page was served from the cache"
                for f, _ in e["deps"]:
                    if then.get(f) != now.get(f):
                        return f"stale-hit: dependency {f} changed ({then.get(f)!r} -> {now.get(f)!r}) but the cached page was used"
            return None
        if impl.get("unbuildable"):
            return None
        if impl["diff"]:
            cat, d = impl["diff"][0]
            who = f" [history touches a path read without dependency at {impl['blame']}]" if impl.get("blame") else ""
            return f"cached!=clean: {cat}: {d}{who}"
        for dr in impl["directed"]:
            if dr["diff"]:
                return f"cached!=clean after flipping {dr['flip']['path']} ({dr['flip']['op']}), which {dr['site']} looked at without recording a dependency: {dr['diff'][0][1]}"
        return None

    # ---- the directive spec changes between saving and loading the cache (command line: --rstspec) ----
    def extra_checks(self, tier, rng):
        """`snooty create-cache ROOT` under the built-in spec, then `snooty build ROOT --rstspec=<custom>` with and without the cache,
        through the real command line in processes of their own: same files, same spec in force, so the same documents,
        diagnostics and exit status. The custom spec differs from the built-in one in what a link role points to and in one
        directive it no longer knows."""
        import subprocess
        import zipfile
        import bson
        spec_text = (core.REPO / "snooty" / "rstspec.toml").read_text(encoding="utf-8")
        lines = [l for l in spec_text.split("\n") if not l.startswith("cache_url_prefix")]
        custom = "\n".join(lines).replace('type = {link = "https://en.wikipedia.org/wiki/%s"}', 'type = {link = "https://de.wikipedia.org/wiki/%s"}')
        if custom == "\n".join(lines):
            raise core.Infra("rstspec.toml has no wikipedia role to vary")
        custom = custom.replace("[directive.glossary]", "[directive.glossary-gone]")
        viol, runs = [], 0
        for k in range(1 if tier == "quick" else 4):
            T = Path(tempfile.mkdtemp(prefix="verif-c11-spec-"))
            try:
                root = T / "proj"
                (root / "source").mkdir(parents=True)
                (root / "snooty.toml").write_text('name = "c11spec"\ntitle = "T"\n')
                (root / "source" / "index.txt").write_text("=====\nIndex\n=====\n\nSee :wikipedia:`Parsing %d`.\n\n.. toctree::\n\n   /other\n   /terms\n" % k)
                (root / "source" / "other.txt").write_text("=====\nOther\n=====\n\nPlain *text* only.\n")
                (root / "source" / "terms.txt").write_text("=====\nTerms\n=====\n\n.. glossary::\n\n   term\n     Meaning.\n")
                (T / "custom.toml").write_text(custom, encoding="utf-8")
                env = dict(os.environ, PYTHONPATH=str(core.REPO), DIAGNOSTICS_FORMAT="JSON")

                def cli(*args):
                    p = subprocess.run([sys.executable, "-m", "snooty", *args], env=env, stdout=subprocess.PIPE, stderr=subprocess.DEVNULL,
                                       text=True, timeout=600, cwd=str(T))
                    diags = sorted(l for l in p.stdout.split("\n") if l.startswith('{"diagnostic"'))
                    return p.returncode, [d.replace(str(root), "<ROOT>") for d in diags]

                def docs(zpath):
                    out = {}
                    with zipfile.ZipFile(zpath) as zf:
                        for name in sorted(zf.namelist()):
                            raw = zf.read(name)
                            out[name] = json.dumps(bson.decode(raw), sort_keys=True, default=str) if name.endswith(".bson") else hashlib.sha1(raw).hexdigest()
                    return out

                rc0, _ = cli("create-cache", "--no-caching", str(root))
                if not list(root.glob(".snooty-*.cache.gz")) and not list(root.glob("*.cache.gz")):
                    raise core.Infra(f"create-cache wrote no cache file (exit {rc0})")
                rc_a, d_a = cli("build", str(root), f"--rstspec={T / 'custom.toml'}", f"--output={T / 'a.zip'}")
                rc_b, d_b = cli("build", "--no-caching", str(root), f"--rstspec={T / 'custom.toml'}", f"--output={T / 'b.zip'}")
                runs += 1
                za, zb = docs(T / "a.zip"), docs(T / "b.zip")
                diff = [n_ for n_ in sorted(set(za) | set(zb)) if za.get(n_) != zb.get(n_)]
                if rc_a != rc_b or d_a != d_b or diff:
                    viol.append({"case": {"kind": "spec-change", "k": k},
                                 "impl": {"exit": [rc_a, rc_b], "diagnostics_cached": d_a[:4], "diagnostics_clean": d_b[:4], "entries_differ": diff[:6]},
                                 "desc": (f"cached!=clean: spec: a cache saved under the built-in spec, then `build --rstspec=custom`: exit {rc_a} vs {rc_b} without "
                                          f"the cache, {len(d_a)} vs {len(d_b)} diagnostics printed, output entries that differ: {diff[:4]}"),
                                 "key": "cached!=clean: spec"})
                    break
            finally:
                shutil.rmtree(T, ignore_errors=True)
        return viol, {"spec_changed_between_saving_and_loading": {"command_line_scenarios": runs}}

    def finding_key(self, case, impl, desc):
        if case["kind"] != "e2e":
            return desc.split(":")[0] + ":" + case["kind"]
        if desc.startswith("cached!=clean after flipping"):
            for dr in impl["directed"]:
                if dr["diff"]:
                    return "unrecorded-read:" + dr["site"]
        if impl.get("blame"):
            return "unrecorded-read:" + impl["blame"][0]
        return "cached!=clean:" + impl["diff"][0][0]

    # ---- evidence ---------------------------------------------------------------------
    def nontrivial_key(self, case, impl):
        if case["kind"] == "e2e":
            st = impl.get("stats")
            if impl.get("unbuildable") or not st:
                return None
            return json.dumps(case, sort_keys=True) if st[0] > 0 or st[1] > 0 else None
        if case["kind"] == "lookup":
            return json.dumps(case, sort_keys=True) if lookup_entries(case) else None
        return json.dumps(case, sort_keys=True)

    def branch_tags(self, case, model, impl):
        tags = [case["kind"]]
        if case["kind"] == "lookup":
            tags.append("lookup:" + impl["decision"])
            if any(e.get("corrupt") for e in case["entries"]):
                tags.append("lookup:corrupt-entry")
            if any(e["deps"] is None for e in case["entries"]):
                tags.append("lookup:uncacheable")
        elif case["kind"] == "load":
            tags.append("load:" + case["variant"] + ":" + impl["load"])
        else:
            if impl.get("unbuildable"):
                tags.append("e2e:unbuildable")
                return tags
            for op in case["history"]:
                if op["op"] == "cache":
                    tags.append("op:cache-" + op["how"])
                elif op["path"] == "snooty.toml":
                    tags.append("op:toml")
                else:
                    created = op["op"] == "write" and op["path"] not in case["files"]
                    tags.append("op:" + ("create" if created else op["op"]) + ":" + (op["path"].rsplit(".", 1)[-1]))
            st = impl.get("stats")
            if st:
                tags.append("e2e:hits>0" if st[0] else "e2e:no-hits")
                if st[0] and st[1]:
                    tags.append("e2e:hits-and-misses")
            else:
                tags.append("e2e:no-cache-loaded")
            if impl.get("clean_exc"):
                tags.append("e2e:clean-build-raises:" + impl["clean_exc"])
            for u in impl.get("unrecorded", []):
                tags.append("unrecorded:" + u["site"])
        return tags

    def sample(self, case, impl):
        if case["kind"] == "e2e":
            return {"files": sorted(case["files"]), "history": [{k: (v if k not in ("text", "hex") else str(v)[:80]) for k, v in op.items()} for op in case["history"]],
                    "impl": {k: impl.get(k) for k in ("stats", "first_stats", "diff", "unrecorded", "n_pages", "n_diags")}}
        return {"case": case, "impl": impl}


PROP = C11()
