"""C13 — the page store is linearizable: no update is lost under concurrency.

Correspondence by schedule replay: a schedule is a list of labels of the transition system
`lean/SnootyVerif/Model/PageDb.lean`; the same schedule is run through the model's `step` (driver op
`c13.run`) and on a real `PageDatabase` whose threads are owned by a deterministic scheduler
(`impl/sched.py`).  Interposition is from outside the repo: `db._lock`, `db.worker._lock` and the
launcher's cancellation event are replaced by instrumented objects, `snooty.util.threading.Thread` by a
managed subclass, and the postprocessor is injected through the public factory argument of `flush`.
"""
import copy
import json
import os
import queue
import random

import core
from impl import sched as S

KEYS = 2
CL_NEXT = {"joining": "cJoin", "unlocked": "cClear", "tracked": "rStart"}
W_NEXT = {"started": "wBegin", "copied": "wRun", "ran": "wPublish", "published": "wRet", "cachedHit": "wRet", "cancelled": "wRet"}


# ----------------------------------------------------------------------------------------------
# generator-side mirror of the model's `step` (mode fixed).  Used ONLY to generate executable
# schedules; the Lean model is the judge (a label the model does not enable is a disagreement).
# ----------------------------------------------------------------------------------------------
MODE = os.environ.get("C13_MODEL_MODE", "fixed")  # "asWritten" only to validate that instance against upstream code


MUT_LABELS = ("set", "del", "inv")   # labels of the store itself: no operation id


class Mirror:
    def __init__(self):
        self.changed = False
        self.store = {}
        self.gen = 0
        self.cached_gen = 0
        self.flag = False
        self.tracked = None
        self.joiner = None
        self.ops = []  # [isReq, c, w, snapGen]

    def clone(self):
        m = Mirror.__new__(Mirror)
        m.store = dict(self.store)
        m.changed = self.changed
        m.gen, m.cached_gen, m.flag, m.tracked, m.joiner = self.gen, self.cached_gen, self.flag, self.tracked, self.joiner
        m.ops = [list(o) for o in self.ops]
        return m

    def key(self):
        return (self.changed, tuple(self.store.items()), self.gen, self.cached_gen, self.flag, self.tracked, self.joiner,
                tuple(tuple(o) for o in self.ops))

    def dirty(self):
        return self.changed if MODE == "asWritten" else self.gen != self.cached_gen

    def alive(self, r):
        return r is not None and self.ops[r][2] not in ("none", "done")

    def step(self, lab):
        """apply `lab` in place and return True, or return False if not enabled"""
        name = lab[0]
        if name == "set":
            self.store[lab[1]] = lab[2]
            self.gen += 1
            self.changed = True
            return True
        if name == "del":
            self.store.pop(lab[1], None)
            self.gen += 1
            self.changed = True
            return True
        if name == "inv":
            # PageDatabase.invalidate(): a new generation of the same pages
            self.gen += 1
            return True
        r = lab[1]
        if name == "cEnter":
            if r != len(self.ops) or self.joiner is not None:
                return False
            if self.alive(self.tracked):
                self.flag = True
                self.joiner = r
                self.ops.append([lab[2], "joining", "none", 0])
            else:
                self.flag = False   # cleared under the lock
                self.ops.append([lab[2], "unlocked", "none", 0])
            return True
        if r >= len(self.ops):
            return False
        o = self.ops[r]
        if name == "cJoin":
            if o[1] != "joining" or self.alive(self.tracked):
                return False
            self.joiner = None
            self.flag = False   # cleared under the lock, right after join() returned
            o[1] = "unlocked"
        elif name == "cClear":
            if o[1] != "unlocked":
                return False
            o[1] = "cleared"
        elif name == "rTrack":
            if not (o[0] and o[1] == "cleared" and self.joiner is None):
                return False
            self.tracked = r
            o[1] = "tracked"
        elif name == "rStart":
            if o[1] != "tracked":
                return False
            o[1], o[2] = "launched", "started"
        elif name == "wBegin":
            if o[2] != "started":
                return False
            if not self.dirty():
                o[2], o[3] = "cachedHit", self.cached_gen
            elif self.flag and self.store:
                o[2] = "cancelled"
            else:
                o[2], o[3] = "copied", self.gen
        elif name == "wRun":
            if o[2] != "copied":
                return False
            o[2] = "cancelled" if self.flag else "ran"
        elif name == "wPublish":
            if o[2] != "ran":
                return False
            if MODE == "asWritten":
                self.cached_gen, self.changed = o[3], False
            elif self.cached_gen < o[3]:
                self.cached_gen = o[3]
            o[2] = "published"
        elif name == "wRet":
            if o[2] not in ("published", "cachedHit", "cancelled"):
                return False
            o[2] = "done"
        else:
            return False
        return True

    def next_labels(self, r):
        """labels operation r could take next (client side, worker side)"""
        o = self.ops[r]
        out = []
        if o[1] in CL_NEXT:
            out.append([CL_NEXT[o[1]], r])
        elif o[1] == "cleared" and o[0]:
            out.append(["rTrack", r])
        if o[2] in W_NEXT:
            out.append([W_NEXT[o[2]], r])
        return out

    def complete(self, r):
        o = self.ops[r]
        return o[2] == "done" if o[0] else o[1] == "cleared"

    def enabled(self, lab):
        return self.clone().step(lab)


def finish_all(m, labels, rng=None):
    """run every started operation to completion (random order if rng, else lowest first)"""
    while True:
        cands = [l for r in range(len(m.ops)) for l in m.next_labels(r) if m.enabled(l)]
        if not cands:
            break
        l = rng.choice(cands) if rng else cands[0]
        m.step(l)
        labels.append(l)


def final_request(m, labels):
    """the quiescent epilogue: one more request, run alone"""
    r = len(m.ops)
    m.step(["cEnter", r, True])
    labels.append(["cEnter", r, True])
    finish_all(m, labels)


def random_schedule(rng, search=False):
    n_mut = rng.randint(0, 4)
    n_req = rng.randint(1, 3)
    n_can = rng.choice([0, 0, 1, 1, 2])
    pending = ["m"] * n_mut + ["r"] * n_req + ["c"] * n_can
    nthreads = rng.choice([0, 2, 3])  # 0: every operation is its own thread
    rng.shuffle(pending)
    if nthreads:
        progs = [[] for _ in range(nthreads)]
        for op in pending:
            progs[rng.randrange(nthreads)].append(op)
        wait_mode = rng.random() < 0.5  # flush_and_wait (next op after the result) vs flush
    m = Mirror()
    labels = []
    version = 0
    inject = None
    want_inject = rng.random() < 0.25
    last_of_thread = {}  # thread index -> op id of its last client operation (or None)
    sticky = None
    while True:
        cands = []
        for r in range(len(m.ops)):
            for l in m.next_labels(r):
                if m.enabled(l):
                    cands.append(("step", l))
        if nthreads:
            for ti, prog in enumerate(progs):
                if not prog:
                    continue
                prev = last_of_thread.get(ti)
                if prev is not None:
                    o = m.ops[prev]
                    client_done = o[1] == "launched" if o[0] else o[1] == "cleared"
                    if not client_done or (wait_mode and not m.complete(prev)):
                        continue
                cands.append(("start", ti))
        else:
            for i, op in enumerate(pending):
                cands.append(("start", i))
        startable = []
        for c in cands:
            if c[0] == "start":
                op = progs[c[1]][0] if nthreads else pending[c[1]]
                if op != "m" and m.joiner is not None:
                    continue
            startable.append(c)
        if not startable:
            break
        if sticky is not None and rng.random() < 0.45:
            same = [c for c in startable if c[0] == "step" and c[1][1] == sticky]
            choice = rng.choice(same) if same else rng.choice(startable)
        else:
            choice = rng.choice(startable)
        if choice[0] == "step":
            l = choice[1]
            sticky = l[1]
            can_inject = (want_inject and inject is None and l[0] == "wBegin" and m.dirty() and m.store)
            m.step(l)
            labels.append(l)
            if can_inject:
                nk = len(m.store) if m.ops[l[1]][2] == "copied" else 1
                poll = rng.randint(1, nk)
                muts = []
                for _ in range(rng.choice([1, 2, 2])):
                    version += 1
                    k = rng.randrange(KEYS)
                    muts.append(["del", k] if rng.random() < 0.3 else ["set", k, version])
                inject = {"at": len(labels) - 1, "poll": poll, "n": len(muts)}
                for mu in muts:
                    m.step(mu)
                    labels.append(mu)
        else:
            if nthreads:
                op = progs[choice[1]].pop(0)
            else:
                op = pending.pop(choice[1])
            if op == "m":
                version += 1
                k = rng.randrange(KEYS)
                l = ["del", k] if rng.random() < 0.2 else ["set", k, version]
                if MODE == "fixed" and rng.random() < 0.25:
                    # something the postprocessor reads besides the pages changes (facets.toml): Project.update -> invalidate()
                    l = ["inv"]
                if nthreads:
                    last_of_thread[choice[1]] = None
            else:
                r = len(m.ops)
                l = ["cEnter", r, op == "r"]
                sticky = r
                if nthreads:
                    last_of_thread[choice[1]] = r
            m.step(l)
            labels.append(l)
    finish_all(m, labels, rng)
    final_request(m, labels)
    case = {"kind": "search" if search else "rand", "labels": labels, "src": rng.choice(["same", "same", "distinct"])}
    if inject:
        case["inject"] = inject
    return case


def coverage_schedules(config, rng, cap):
    """transition coverage: breadth-first over the mirror's reachable states for a fixed multiset of
    operations; one schedule per reachable (state, enabled label) pair = shortest path + label +
    seeded completion + quiescent epilogue"""
    start = (Mirror(), tuple(config), 0)
    seen = {(start[0].key(), start[1]): None}
    frontier = [(start[0], start[1], 0, [])]
    out = []
    while frontier and len(out) < cap:
        nxt = []
        for m, pend, version, path in frontier:
            cands = []
            for r in range(len(m.ops)):
                for l in m.next_labels(r):
                    if m.enabled(l):
                        cands.append((l, pend, version))
            for i, op in enumerate(pend):
                if i and pend[i - 1] == op:
                    continue  # identical pending operations are interchangeable
                rest = pend[:i] + pend[i + 1:]
                if op[0] == "s":
                    cands.append((["set", int(op[1]), version + 1], rest, version + 1))
                elif op[0] == "d":
                    cands.append((["del", int(op[1])], rest, version))
                elif m.joiner is None:
                    cands.append((["cEnter", len(m.ops), op == "r"], rest, version))
            for l, rest, ver in cands:
                m2 = m.clone()
                assert m2.step(l)
                p2 = path + [l]
                labels = list(p2)
                m3 = m2.clone()
                # operations not yet issued are issued in order, everything completes, then epilogue
                v3 = ver
                for op in rest:
                    if op[0] == "s":
                        v3 += 1
                        lab = ["set", int(op[1]), v3]
                    elif op[0] == "d":
                        lab = ["del", int(op[1])]
                    else:
                        while m3.joiner is not None:
                            finish_one(m3, labels, rng)
                        lab = ["cEnter", len(m3.ops), op == "r"]
                    m3.step(lab)
                    labels.append(lab)
                    for _ in range(rng.randint(0, 3)):
                        finish_one(m3, labels, rng)
                finish_all(m3, labels, rng)
                final_request(m3, labels)
                out.append({"kind": "cover", "labels": labels})
                if len(out) >= cap:
                    break
                k = (m2.key(), rest)
                if k not in seen:
                    seen[k] = None
                    nxt.append((m2, rest, ver, p2))
            if len(out) >= cap:
                break
        frontier = nxt
    return out, len(seen)


def reindex(inj, keep):
    if not inj:
        return None
    return {**inj, "at": keep.index(inj["at"])}


def finish_one(m, labels, rng):
    cands = [l for r in range(len(m.ops)) for l in m.next_labels(r) if m.enabled(l)]
    if cands:
        l = rng.choice(cands)
        m.step(l)
        labels.append(l)


COVER_CONFIGS_QUICK = [("r", "r", "s0")]
COVER_CONFIGS = [
    ("r", "r", "s0"),
    ("r", "r", "s0", "s0"),
    ("c", "r", "r", "s0"),
    ("c", "r", "d0", "s0", "s1"),
    ("r", "r", "r", "s0"),
    ("c", "c", "r", "s0", "s1"),
    ("r", "r", "s0", "s1", "d0"),
    ("c", "r", "r", "s0", "s1"),
]


# ----------------------------------------------------------------------------------------------
# replay on the real PageDatabase
# ----------------------------------------------------------------------------------------------
def fid(k):
    from snooty.n import FileId
    return FileId(f"k{k}.txt")


def versions_of(pages):
    """what a result says: key -> version, the version being read from the page's TREE (Root.options),
    never from its source text"""
    return sorted([int(str(f)[1:-4]), int(p.ast.options["verif_version"])] for f, p in pages.items())


def make_page(k, version, src_mode):
    """a stored page.  src_mode "same": every version of a key has byte-identical source text (hence the
    same Page.blake2b) and differs only in its tree - what re-parsing a page gives when only something it
    includes changed; "distinct": the source text differs too."""
    from snooty import n
    from snooty.page import Page
    f = fid(k)
    source = f".. include:: /shared-{k}.rst\n" if src_mode == "same" else f"version {version} of page {k}\n"
    ast = n.Root((0,), [n.Paragraph((1,), [n.Text((1,), f"payload {version}")])], f, {"verif_version": version})
    return (Page.create(f, None, source, ast), f, [])


class Replay:
    def __init__(self, case):
        from snooty import util
        from snooty.page import Page
        from snooty.page_database import PageDatabase
        from snooty.postprocess import PostprocessorResult
        from snooty.target_database import TargetDatabase

        self.util = util
        self.Page = Page
        self.PostprocessorResult = PostprocessorResult
        self.TargetDatabase = TargetDatabase
        self.case = case
        self.labels = case["labels"]
        self.s = S.Sched(watchdog=float(os.environ.get("C13_WATCHDOG", "20")))
        self.db = PageDatabase()
        self.db._lock = S.ILock(self.s, "db")
        self.db.worker._lock = S.ILock(self.s, "L")
        self.event = S.IEvent(self.s)
        self.db.worker._WorkerLauncher__cancel = self.event
        self.truth = [[]]
        self.store = {}
        self.ext = 0              # what the postprocessor reads besides the pages (bumped before every invalidate())
        self.ext_at_issue = {}
        self.clients = {}
        self.queues = {}
        self.t_start = {}
        self.t_ret = {}
        self.outcomes = {}
        self.cancelled_runs = []
        self.returned_runs = []
        self.cached_trace = []
        self.obs = []
        self.is_req = {}
        self.inject_status = []
        self.pending_inj = None

    # -- the injected postprocessor --
    def factory(self, rid):
        rp = self

        class GatedPostprocessor:
            def run(self, pages, token):
                ext_seen = rp.ext      # read when the run starts, outside every lock - like facets.toml
                if token.is_set():
                    rp.cancelled_runs.append(rid)
                    rp.s.park(("cancelled",))
                    raise rp.util.CancelledException()
                rp.returned_runs.append(rid)
                return rp.PostprocessorResult(pages, {"origin": rid, "ext": ext_seen}, {}, rp.TargetDatabase())

        return GatedPostprocessor

    def mutation(self, lab):
        def fn_inv():
            self.ext += 1
            self.db.invalidate()
            self.truth.append(sorted([a, b] for a, b in self.store.items()))
        if lab[0] == "inv":
            return fn_inv

        def fn():
            k = lab[1]
            if lab[0] == "set":
                self.db[fid(k)] = make_page(k, lab[2], self.case.get("src", "same"))
                self.store[k] = lab[2]
            else:
                del self.db[fid(k)]
                self.store.pop(k, None)
            self.truth.append(sorted([a, b] for a, b in self.store.items()))
        return fn

    def peek(self):
        c = getattr(self.db, "_PageDatabase__cached")
        return [c.metadata.get("origin"), versions_of(c.pages)]

    def collect(self, r, block=False):
        q = self.queues.get(r)
        if q is None:
            return
        try:
            res, exc = q.get(timeout=0.5) if block else q.get_nowait()
        except queue.Empty:
            return
        if exc is not None:
            self.outcomes[r] = "cancelled" if isinstance(exc, self.util.CancelledException) else {"exc": type(exc).__name__}
        else:
            self.outcomes[r] = {"ok": versions_of(res.pages), "origin": res.metadata.get("origin"), "ext": res.metadata.get("ext"),
                                "ext_at_issue": self.ext_at_issue.get(r)}
        self.t_ret[r] = len(self.truth) - 1

    def land_pending(self, blocked_expected):
        """issue the mutations of the pending injection now"""
        muts, self.pending_inj = self.pending_inj[1], None
        self.s.poll_spec = None
        for mu in muts:
            t = self.s.spawn("m", "mut", self.mutation(mu))
            if blocked_expected:
                self.inject_status.append(t.status())

    def run_thread(self, ts):
        """one step of `ts`; if it parks at the armed poll, land the pending mutations there and continue"""
        self.s.resume(ts)
        while ts.state == "parked" and ts.tag[0] == "poll":
            if self.pending_inj:
                self.land_pending(True)
            self.s.resume(ts)
        if ts.state == "done" and self.pending_inj and self.pending_inj[0] == ts.name:
            self.land_pending(False)

    def exec_label(self, i, lab, inj_muts):
        name = lab[0]
        s = self.s
        if name in MUT_LABELS:
            ts = s.spawn(f"m{i}", "mut", self.mutation(lab))
            return ts.status()
        r = lab[1]
        if name == "cEnter":
            self.is_req[r] = lab[2]
            self.t_start[r] = len(self.truth) - 1
            self.ext_at_issue[r] = self.ext
            if lab[2]:
                def fn(r=r):
                    self.queues[r] = self.db.flush(self.factory(r))
            else:
                def fn():
                    self.db.cancel()
            ts = s.spawn(f"c{r}", "client", fn)
            self.clients[r] = ts
            if ts.status() != "park:acq:L":
                return "spawn:" + ts.status()
            s.resume(ts)
            return ts.status()
        if name in ("cJoin", "cClear", "rTrack", "rStart"):
            ts = self.clients.get(r)
            want = {"cJoin": ("join",), "cClear": ("park:rel:L",), "rTrack": ("park:acq:L",), "rStart": ("park:rel:L",)}[name]
            if ts is None or ts.status() not in want:
                return "stuck:" + (ts.status() if ts else "nothread")
            if name == "cJoin" and ts.wait_for.state != "done":
                return "stuck:join-target-" + ts.wait_for.status()
            s.resume(ts)
            if name == "rStart":
                w = s.worker_of.get(ts.name)
                if ts.status() != "done":
                    return "client:" + ts.status()
                return w.status() if w else "noworker"
            return ts.status()
        # worker steps
        cl = self.clients.get(r)
        ts = s.worker_of.get(cl.name) if cl else None
        want = {"wBegin": ("park:acq:db",), "wRun": ("park:rel:db",), "wPublish": ("park:acq:db",),
                "wRet": ("park:rel:db", "park:cancelled")}[name]
        if ts is None or ts.status() not in want:
            return "stuck:" + (ts.status() if ts else "noworker")
        if inj_muts is not None:
            # arm: the mutations land when this worker polls the token for the inj_muts[0]-th time (in
            # the copy loop, i.e. within this very step if the copy is made under the lock)
            s.poll_spec = (ts.name, inj_muts[0])
            self.pending_inj = (ts.name, inj_muts[1])
        self.run_thread(ts)
        s.drain_waiters()
        if name == "wRet" and ts.status() == "done":
            self.collect(r)
        return ts.status()

    def run(self):
        inj = self.case.get("inject")
        aborted = None
        i = 0
        n = len(self.labels)
        while i < n:
            lab = self.labels[i]
            inj_muts = None
            skip = 0
            if inj and inj["at"] == i:
                skip = inj["n"]
                inj_muts = (inj["poll"], self.labels[i + 1: i + 1 + skip])
            st = self.exec_label(i, lab, inj_muts)
            self.s.drain_waiters()
            # a canceller that is blocked in join() has set the token and not yet cleared it: the token must still be set,
            # or the worker it is waiting for will never hear of the cancellation
            if getattr(self, "cancel_erased", None) is None:
                waiting = [r_ for r_, ts_ in self.clients.items() if ts_.status() == "join"]
                ev = getattr(self.db.worker, "_WorkerLauncher__cancel", None)
                if waiting and ev is not None and not ev.is_set():
                    self.cancel_erased = [i, lab, waiting[0]]
            self.obs.append(st)
            self.cached_trace.append(self.peek())
            for _ in range(skip):
                self.obs.append("done")
                self.cached_trace.append(self.cached_trace[-1])
            i += 1 + skip
            if st.startswith("stuck") or st.startswith("spawn:") or st.startswith("client:"):
                aborted = i - 1 - skip
                break
        leftover = [t.name + "=" + t.status() for t in self.s.all if t.state != "done"]
        still = []
        if leftover:
            still = self.s.release_all()
        for r in sorted(self.is_req):
            if self.is_req[r] and r not in self.outcomes:
                self.collect(r, block=bool(leftover))
        return {
            "obs": self.obs,
            "aborted": aborted,
            "leftover": leftover,
            "never_finished": still,
            "outcomes": {str(r): self.outcomes.get(r) for r in sorted(self.is_req) if self.is_req[r]},
            "t_start": {str(r): v for r, v in self.t_start.items()},
            "t_ret": {str(r): v for r, v in self.t_ret.items()},
            "truth": self.truth,
            "cached_trace": self.cached_trace,
            "cancel_erased": getattr(self, "cancel_erased", None),
            "cancelled_runs": self.cancelled_runs,
            "returned_runs": self.returned_runs,
            "event_log": "".join(x[0] for x in self.event.log),
            "inject_status": self.inject_status,
        }



# ----------------------------------------------------------------------------------------------
# FREE SCHEDULING: client threads run operation sequences; at every instrumented yield point of the
# implementation (every acquire/release of either lock, every access to the cancellation event,
# thread start / join, the postprocessor's entry) the scheduler picks ANY runnable thread.  Independent
# of the model: judged by the direct oracle only.  Deterministic given the recorded choices.
# ----------------------------------------------------------------------------------------------
def free_case(rng, kind="free"):
    """random programs for 2-3 client threads: <=4 mutations on 2 keys, <=3 requests, <=2 cancels"""
    nthreads = rng.choice([2, 2, 3])
    ops = []
    version = 100
    n_mut, n_req, n_can = rng.randint(1, 4), rng.randint(1, 3), rng.choice([0, 0, 1, 1, 2])
    for _ in range(n_mut):
        version += 1
        k = rng.randrange(KEYS)
        ops.append(["del", k] if rng.random() < 0.35 else ["set", k, version])
    ops += [[rng.choice(["req", "reqw"])] for _ in range(n_req)] + [["cancel"] for _ in range(n_can)]
    rng.shuffle(ops)
    progs = [[] for _ in range(nthreads)]
    for op in ops:
        progs[rng.randrange(nthreads)].append(op)
    setup = []
    r = rng.random()
    if r < 0.75:  # start from a populated store, usually with a clean cache
        setup = [["set", 0, 1], ["set", 1, 2]][: rng.choice([1, 2, 2])]
        if rng.random() < 0.7:
            setup.append(["reqw"])
    case = {"kind": kind, "setup": setup, "programs": [p for p in progs if p], "seed": rng.randrange(1 << 30),
            "src": rng.choice(["same", "same", "distinct"])}
    if rng.random() < 0.4 and len(case["programs"]) >= 2:
        # one-preemption schedule: the victim runs `at` steps, then everybody else runs as far as
        # possible, then the victim continues
        case["preempt"] = {"victim": rng.randrange(len(case["programs"])), "at": rng.randint(1, 9)}
    return case


def preemption_family(rng):
    """systematic: one thread performs a single mutation on a populated, clean store; it is preempted
    after each of its first yield points in turn while another thread makes a complete request"""
    out = []
    for mut in (["del", 1], ["del", 0], ["set", 0, 50], ["set", 1, 51]):
        for other in ([["reqw"]], [["req"], ["reqw"]]):
            for at in range(1, 9):
                out.append({"kind": "free-preempt", "setup": [["set", 0, 1], ["set", 1, 2], ["reqw"]],
                            "programs": [[mut], other], "seed": rng.randrange(1 << 30), "src": "same",
                            "preempt": {"victim": 0, "at": at}})
    return out


class FreeRun:
    def __init__(self, case):
        from snooty import util
        from snooty.page_database import PageDatabase
        from snooty.postprocess import PostprocessorResult
        from snooty.target_database import TargetDatabase

        self.util = util
        self.PostprocessorResult = PostprocessorResult
        self.TargetDatabase = TargetDatabase
        self.case = case
        self.s = S.Sched(watchdog=float(os.environ.get("C13_WATCHDOG", "20")), mode="free")
        self.db = PageDatabase()
        self.db._lock = S.ILock(self.s, "db")
        self.db.worker._lock = S.ILock(self.s, "L")
        self.event = S.IEvent(self.s)
        self.db.worker._WorkerLauncher__cancel = self.event
        self.muts = []
        self.reqs = []
        self.errors = []
        self.cancelled_runs = []
        self.chosen = []
        self.cached_bad = None
        self.nreq = 0
        self.epilogue_from = None

    def factory(self, rid):
        fr = self

        class GatedPostprocessor:
            def run(self, pages, token):
                fr.s.park(("run",))
                if token.is_set():
                    fr.cancelled_runs.append(rid)
                    raise fr.util.CancelledException()
                return fr.PostprocessorResult(pages, {"origin": rid}, {}, fr.TargetDatabase())

        return GatedPostprocessor

    def program(self, name, ops):
        def fn():
            for op in ops:
                try:
                    if op[0] in ("set", "del"):
                        rec = {"op": op[0], "k": op[1], "v": op[2] if op[0] == "set" else None, "inv": self.s.clock, "resp": None, "by": name}
                        self.muts.append(rec)
                        if op[0] == "set":
                            self.db[fid(op[1])] = make_page(op[1], op[2], self.case.get("src", "same"))
                        else:
                            del self.db[fid(op[1])]
                        rec["resp"] = self.s.clock
                    elif op[0] == "cancel":
                        self.db.cancel()
                    else:
                        rid = self.nreq
                        self.nreq += 1
                        rec = {"rid": rid, "inv": self.s.clock, "by": name, "queue": None, "worker": None}
                        self.reqs.append(rec)
                        rec["queue"] = self.db.flush(self.factory(rid))
                        w = self.s.worker_of.get(name)
                        rec["worker"] = w
                        if op[0] == "reqw" and w is not None:
                            self.s.block_until(lambda w=w: w.state == "done", ("result", rid))
                except Exception as e:  # an operation of the public API raised
                    self.errors.append(f"{op[0]}:{type(e).__name__}")
        return fn

    def loop(self, choose):
        s = self.s
        while True:
            s.runnable_waiters.clear()
            run = s.runnable()
            if not run:
                break
            t = choose(run)
            self.chosen.append(t.name)
            s.clock += 1
            s.resume(t)
            if self.cached_bad is None:
                c = getattr(self.db, "_PageDatabase__cached")
                o = c.metadata.get("origin")
                if o is not None and o in self.cancelled_runs:
                    self.cached_bad = [len(self.chosen) - 1, o]

    def run(self):
        s = self.s
        case = self.case
        if case.get("setup"):
            s.spawn("s0", "client", self.program("s0", case["setup"]))
            self.loop(lambda run: run[0])
        self.concurrent_from = len(self.chosen)
        names = []
        for i, prog in enumerate(case["programs"]):
            names.append(f"t{i}")
            s.spawn(f"t{i}", "client", self.program(f"t{i}", prog))
        rng = random.Random(case.get("seed", 0))
        choices = case.get("choices")
        pre = case.get("preempt")
        victim = f"t{pre['victim']}" if pre else None
        state = {"i": 0, "vsteps": 0}

        def choose(run):
            i = state["i"]
            state["i"] += 1
            pick = None
            if choices is not None and i < len(choices):
                for t in run:
                    if t.name == choices[i]:
                        pick = t
            if pick is None and pre:
                vic = [t for t in run if t.name == victim]
                others = [t for t in run if t.name != victim]
                if vic and (state["vsteps"] < pre["at"] or not others):
                    pick = vic[0]
                else:
                    pick = rng.choice(others)
            if pick is None:
                pick = rng.choice(run)
            if pick.name == victim:
                state["vsteps"] += 1
            return pick

        self.loop(choose)
        stuck = [t.name + "=" + t.status() for t in s.all if t.state != "done"]
        if not stuck:
            # quiescent epilogue: one more request, alone
            self.epilogue_from = len(self.chosen)
            s.spawn("z", "client", self.program("z", [["reqw"]]))
            self.loop(lambda run: run[0])
            stuck = [t.name + "=" + t.status() for t in s.all if t.state != "done"]
        if stuck:
            s.release_all()
        reqs = []
        for rec in self.reqs:
            out = None
            q = rec["queue"]
            if q is not None:
                try:
                    res, exc = q.get(timeout=0.5) if stuck else q.get_nowait()
                    if exc is not None:
                        out = "cancelled" if isinstance(exc, self.util.CancelledException) else {"exc": type(exc).__name__}
                    else:
                        out = {"ok": versions_of(res.pages), "origin": res.metadata.get("origin")}
                except queue.Empty:
                    pass
            w = rec["worker"]
            reqs.append({"rid": rec["rid"], "by": rec["by"], "inv": rec["inv"],
                         "ret": w.exit_clock if (w is not None and w.exit_clock is not None) else self.s.clock, "out": out})
        parsed = getattr(self.db, "_parsed")
        return {
            "free": True,
            "muts": [{k: v for k, v in m.items()} for m in self.muts],
            "reqs": reqs,
            "errors": self.errors,
            "deadlock": stuck,
            "cached_bad": self.cached_bad,
            "cancelled_runs": self.cancelled_runs,
            "chosen": self.chosen[self.concurrent_from:self.epilogue_from],
            "steps": len(self.chosen),
            "final_store": sorted([int(str(f)[1:-4]), int(v[0].ast.options["verif_version"])] for f, v in parsed.items()),
            "event_log": "".join(x[0] for x in self.event.log),
        }


def explain(result, muts, inv, ret, strict=True):
    """is `result` (sorted [[k, v]]) the content of the store at some instant of [inv, ret], for SOME
    linearization of the mutations (each takes effect at one instant between its invocation and its
    response)?  strict=False drops the obligation to include mutations that completed before `inv`."""
    res = {k: v for k, v in result}
    must, opt = [], []
    for m in muts:
        if m["inv"] > ret:
            continue  # cannot have taken effect
        if strict and m["resp"] is not None and m["resp"] < inv:
            must.append(m)
        else:
            opt.append(m)
    keys = sorted({m["k"] for m in muts} | set(res))

    def before(a, b):
        return a["resp"] is not None and a["resp"] < b["inv"]

    for mask in range(1 << len(opt)):
        chosen = must + [m for i, m in enumerate(opt) if mask >> i & 1]
        # downward closed: whatever completed before the invocation of a chosen one is chosen too
        if any(before(a, b) and a not in chosen for b in chosen for a in muts if a["inv"] <= ret):
            continue
        ok = True
        for k in keys:
            on_k = [m for m in chosen if m["k"] == k]
            if not on_k:
                ok = k not in res
            else:
                last = [m for m in on_k if not any(before(m, o) for o in on_k)]
                ok = any((m["op"] == "del" and k not in res) or (m["op"] == "set" and res.get(k) == m["v"]) for m in last)
            if not ok:
                break
        if ok:
            return True
    return False


def free_oracle(case, impl):
    if impl["errors"]:
        return f"operation-failed:{impl['errors'][0]}: a public operation raised"
    if impl["deadlock"]:
        return f"never-returned: no thread can make progress but some have not finished: {impl['deadlock']}"
    for r in impl["reqs"]:
        out = r["out"]
        if out is None:
            return f"never-returned: request {r['rid']} produced neither a result nor a cancellation"
        if out == "cancelled":
            continue
        if "exc" in out:
            return f"request-failed:{out['exc']}: request {r['rid']} raised instead of returning a snapshot"
        if explain(out["ok"], impl["muts"], r["inv"], r["ret"]):
            continue
        hist = [[m["op"], m["k"], m["v"], m["inv"], m["resp"]] for m in impl["muts"]]
        if explain(out["ok"], impl["muts"], r["inv"], r["ret"], strict=False):
            return (f"stale-result: request {r['rid']} (issued at step {r['inv']}, returned at {r['ret']}) returned {out['ok']}, a state "
                    f"older than an update or deletion completed before the request was issued; mutations [op,k,v,from,to]: {hist}")
        return (f"inconsistent-snapshot: request {r['rid']} (steps {r['inv']}..{r['ret']}) returned {out['ok']}, pages that were never "
                f"stored together; mutations [op,k,v,from,to]: {hist}")
    if impl["cached_bad"]:
        return f"cancelled-run-published: after step {impl['cached_bad'][0]} the published result comes from request {impl['cached_bad'][1]} whose run was cancelled"
    return None


EXPECT = {
    "joining": "join", "unlocked": "park:rel:L", "tracked": "park:rel:L",
    "started": "park:acq:db", "copied": "park:rel:db", "ran": "park:acq:db", "published": "park:rel:db",
    "cachedHit": "park:rel:db", "done": "done",
}


def expected_status(lab, phase, is_req):
    c, w = phase.split("/")
    name = lab[0]
    if name in ("cEnter", "cJoin", "rTrack"):
        return (EXPECT[c],)
    if name == "cClear":
        return ("park:acq:L",) if is_req else ("done",)
    if name == "rStart":
        return ("park:acq:db",)
    if w == "cancelled":
        return ("park:rel:db",) if name == "wBegin" else ("park:cancelled",)
    return (EXPECT[w],)


class C13(core.PropertyCheck):
    id = "C13"
    parallel = True
    quick_budget = 2400
    thorough_budget = 40000
    rule = ("free: client threads run random operation sequences (<=4 set/del on 2 keys, <=3 requests, <=2 cancels, 2-3 threads) and the "
            "scheduler picks a seeded random runnable thread at EVERY instrumented yield point of the implementation (each acquire/release of "
            "either lock, each access to the cancel event, thread start/join, postprocessor entry), independent of the model, judged by the "
            "direct oracle only (linearizability window per request + quiescent epilogue request); free-preempt: systematic one-preemption "
            "schedules (a single mutation preempted after each of its first 8 yield points by a complete request); pages of a key keep "
            "byte-identical source text in 2 of 3 cases (same blake2b), the version lives in the tree. "
            "labels: a case = one schedule (label sequence of Model/PageDb.lean) replayed on the model and on a real PageDatabase under a "
            "deterministic scheduler; random: 0-4 mutations (set/del) on 2 keys, 1-3 requests, 0-2 cancels, issued by independent "
            "threads or by 2-3 client threads in program order (flush or flush_and_wait), every interleaving point chosen by the seeded rng, "
            "1 in 4 with mutations landed in the middle of the copy loop; cover: one schedule per reachable (state, enabled label) pair "
            "of the bounded configurations (breadth-first over the transition system); every schedule ends with a quiescent request. "
            "non-trivial = at least one mutation while a worker is between copy and return, or a cancellation observed by a worker; "
            "distinct by label sequence")
    assumptions = [
        "critical sections of PageDatabase._lock are atomic in the model (lock assumption); that the code really holds the lock around "
        "them is probed by landing mutations in the middle of the copy loop (they must block)",
        "threading.Lock / Event / Thread.join / is_alive and queue.Queue behave as documented; dict operations are atomic under the GIL",
        "the initial PostprocessorResult({}, …) is what postprocessing an empty store yields",
        "the postprocessor is a function of the copied pages (post) that polls the cancellation token; the injected one polls once",
    ]
    extra_trusted = ["harness/impl/sched.py (deterministic scheduler, instrumented Lock/Event/Thread) and the generator-side Python mirror "
                     "of the model's enabledness (used to produce schedules only; the Lean model decides)"]

    # ---- cases ----
    def generate(self, rng, budget, tier):
        if tier == "search":
            # after a broken tie: mostly free scheduling (independent of the model), the systematic
            # one-preemption family first
            yield from preemption_family(rng)
            for i in range(budget):
                if i % 4:
                    yield free_case(rng, "free-search")
                else:
                    yield random_schedule(rng, search=True)
            return
        self.cover_stats = []
        for cfg in (COVER_CONFIGS_QUICK if tier == "quick" else COVER_CONFIGS):
            cap = 1000 if tier == "quick" else budget
            out, nstates = coverage_schedules(tuple(sorted(cfg)), rng, cap)
            self.cover_stats.append({"operations": list(cfg), "reachable_states": nstates, "transitions_replayed": len(out),
                                     "exhaustive": len(out) < cap})
            yield from out
        for _ in range(budget):
            yield random_schedule(rng)
        yield from preemption_family(rng)
        for _ in range(budget // 8):
            yield free_case(rng)

    def extra_checks(self, tier, rng):
        return [], {"transition_coverage": getattr(self, "cover_stats", [])}

    def shrink_candidates(self, case):
        if "programs" in case:
            yield from self.shrink_free(case)
            return
        n0 = len(case["labels"])
        for cand in self._shrink_candidates(case):
            if len(cand["labels"]) < n0:
                if "src" in case:
                    cand["src"] = case["src"]
                yield cand

    def shrink_free(self, case):
        """every candidate is PINNED: it carries the complete choice sequence of its own run, so the
        replay file reproduces from the recorded choices alone"""
        def pinned(cand):
            try:
                chosen = self.run_impl(cand)["chosen"]
            except core.Infra:
                return None
            return {**cand, "choices": chosen}

        if "choices" not in case:
            c = pinned(case)
            if c is not None:
                yield c
            return
        progs = case["programs"]
        cands = []
        for ti in range(len(progs)):
            for oi in range(len(progs[ti])):
                np_ = [list(p) for p in progs]
                del np_[ti][oi]
                cands.append({**case, "programs": np_})
        for i in range(len(case["setup"])):
            cands.append({**case, "setup": case["setup"][:i] + case["setup"][i + 1:]})
        for cand in cands:
            c = pinned(cand)  # the old choices guide the run as far as they apply
            if c is not None:
                yield c

    def _shrink_candidates(self, case):
        labels = case["labels"]
        inj = case.get("inject")
        ops = sorted({l[1] for l in labels if l[0] not in MUT_LABELS}, reverse=True)
        if not ops:
            return
        # the epilogue (last operation) is re-created by normalise()
        epi = ops[0]
        base = [i for i, l in enumerate(labels) if l[0] in MUT_LABELS or l[1] != epi]
        if inj and labels[inj["at"]][1] == epi:
            inj = None
        protected = set(range(inj["at"], inj["at"] + inj["n"] + 1)) if inj else set()

        def cand(keep, inj2=inj):
            return normalise([labels[i] for i in keep], reindex(inj2, keep))

        for r in ops[1:]:  # drop one operation (all its labels)
            if inj and labels[inj["at"]][1] == r:
                continue
            yield cand([i for i in base if labels[i][0] in MUT_LABELS or labels[i][1] != r])
        for i in base:  # drop one mutation
            if labels[i][0] in MUT_LABELS and i not in protected:
                yield cand([j for j in base if j != i])
        if inj and inj["n"] > 1:
            for d in range(1, inj["n"] + 1):
                yield cand([j for j in base if j != inj["at"] + d], {**inj, "n": inj["n"] - 1})
        if inj:
            yield normalise([labels[i] for i in base], None)
        # move a label one position earlier (towards a canonical, sequential order)
        yield cand(base)

    # ---- implementation ----
    def run_impl(self, case):
        import snooty.util as U
        old = U.threading
        U.threading = S.threading_shim()
        rp = FreeRun(case) if "programs" in case else Replay(case)
        S.CURRENT = rp.s
        try:
            return rp.run()
        except S.Hang as e:
            rp.s.release_all(0.2)
            raise core.Infra(f"watchdog: a thread neither parked nor finished ({e}) on {json.dumps(case)[:300]}")
        finally:
            S.CURRENT = None
            U.threading = old

    # ---- model ----
    def model_request(self, case):
        if "programs" in case:
            return None  # free scheduling: direct oracle only
        return {"op": "c13.run", "mode": MODE, "labels": case["labels"]}

    def compare(self, case, model, impl):
        labels = case["labels"]
        for i, en in enumerate(model["enabled"]):
            if not en:
                return f"label {i} {labels[i]} is not enabled in the model (schedule generator out of step with the model)"
        is_req = {i: o["isReq"] for i, o in enumerate(model["ops"])}
        for st in impl["inject_status"]:
            if st != "lockwait:db":
                return (f"a mutation issued while the worker was inside the copy loop did not block on PageDatabase._lock "
                        f"(thread {st}): the critical section is not atomic, the model's lock assumption fails")
        for i, (lab, ph) in enumerate(zip(labels, model["trace"])):
            if i >= len(impl["obs"]):
                return f"implementation stopped before label {i} {lab}: leftover {impl['leftover']}"
            if lab[0] in MUT_LABELS:
                want = ("done",)
            else:
                want = expected_status(lab, ph, is_req[lab[1]])
            if impl["obs"][i] not in want:
                return f"after label {i} {lab}: model phase {ph} (thread should be {want}), implementation thread is {impl['obs'][i]}"
        for r, o in enumerate(model["ops"]):
            if not o["isReq"]:
                continue
            mo = o["out"]
            io = impl["outcomes"].get(str(r))
            mo_c = mo if mo in (None, "cancelled") else mo["ok"]
            io_c = io if io in (None, "cancelled") or "exc" in io else io["ok"]
            if mo_c != io_c:
                return f"request {r}: model returns {mo_c}, implementation {io_c}"
        if model["store"] != impl["truth"][-1]:
            return f"final store: model {model['store']}, implementation {impl['truth'][-1]}"
        if impl["cached_trace"] and model["cached"] != impl["cached_trace"][-1][1]:
            return f"final cached result: model {model['cached']}, implementation {impl['cached_trace'][-1][1]}"
        return None

    # ---- direct oracle: the property itself on the implementation's observations ----
    def oracle(self, case, impl):
        if impl.get("free"):
            return free_oracle(case, impl)
        truth = impl["truth"]
        for r, out in impl["outcomes"].items():
            if out is None:
                return f"never-returned: request {r} produced neither a result nor a cancellation (threads: {impl['leftover']})"
            if out == "cancelled":
                continue
            if "exc" in out:
                return f"request-failed:{out['exc']}: request {r} raised instead of returning a snapshot"
            t0, t1 = impl["t_start"][r], impl["t_ret"].get(r, len(truth) - 1)
            if out.get("ext") is not None and out.get("ext_at_issue") is not None and out["ext"] < out["ext_at_issue"]:
                return (f"stale-result: request {r} was issued after invalidation number {out['ext_at_issue']} had completed but returned a result "
                        f"computed when only {out['ext']} had happened (what the postprocessor reads besides the pages was older)")
            if out["ok"] in truth[t0:t1 + 1]:
                continue
            if out["ok"] in truth[:t0]:
                return (f"stale-result: request {r} was issued when the store held {truth[t0]} but returned {out['ok']}, "
                        f"a state that only existed before the request (update lost)")
            return f"inconsistent-snapshot: request {r} returned {out['ok']}, pages that were never stored together (history {truth})"
        if impl.get("cancel_erased"):
            i, lab, r = impl["cancel_erased"]
            return (f"cancel-erased: after label {i} ({lab}) the cancellation token is clear although operation {r} is still blocked in "
                    f"cancel() -> join(): the delayed clear() of an earlier cancel()/run() erased its set(), the worker it waits for is never told")
        for i, (origin, vers) in enumerate(impl["cached_trace"]):
            if origin is not None and origin in impl["cancelled_runs"]:
                return f"cancelled-run-published: after label {i} the published result comes from request {origin} whose run was cancelled"
            if vers not in truth:
                return f"inconsistent-snapshot: after label {i} the published result holds {vers}, never the content of the store"
        return None

    def finding_key(self, case, impl, desc):
        return desc.split(":")[0] + (":" + desc.split(":")[1] if desc.startswith("request-failed") else "")

    def nontrivial_key(self, case, impl):
        if impl.get("free"):
            # a mutation overlapping a request in time, or a cancellation observed
            hit = bool(impl["cancelled_runs"]) or any(
                m["inv"] <= r["ret"] and (m["resp"] is None or m["resp"] >= r["inv"]) for m in impl["muts"] for r in impl["reqs"][:-1])
            return json.dumps([case["setup"], case["programs"], impl["chosen"]]) if hit else None
        labels = case["labels"]
        inflight = set()
        hit = bool(impl["cancelled_runs"])
        for l in labels:
            if l[0] == "wBegin":
                inflight.add(l[1])
            elif l[0] == "wRet":
                inflight.discard(l[1])
            elif l[0] in MUT_LABELS and inflight:
                hit = True
        return json.dumps(labels) if hit else None

    def branch_tags(self, case, model, impl):
        tags = [case.get("kind", "corpus")]
        tags.append("src:" + case.get("src", "same"))
        if any(l[0] == "inv" for l in case.get("labels", [])):
            tags.append("invalidate")
            labs = case["labels"]
            if any(l[0] == "inv" and any(x[0] == "wBegin" for x in labs[:i]) and any(x[0] == "wPublish" for x in labs[i:]) for i, l in enumerate(labs)):
                tags.append("invalidate-between-copy-and-publish-of-some-run")
        if impl.get("free"):
            if case.get("preempt"):
                tags.append("free:one-preemption")
            outs = [r["out"] for r in impl["reqs"]]
            if "cancelled" in outs:
                tags.append("outcome:cancelled")
            if "s" in impl["event_log"]:
                tags.append("cancel-event-set")
            tags.append("free-steps:%d0-%d9" % (impl["steps"] // 10, impl["steps"] // 10))
            return tags
        if case.get("inject"):
            tags.append("mutation-landed-in-copy-loop")
            if any(o.startswith("lockwait") for o in impl["inject_status"]):
                tags.append("lockwait-observed")
        if model:
            phases = set(model["trace"])
            for ph in ("joining/none", "launched/cachedHit", "launched/cancelled", "launched/published"):
                if ph in phases:
                    tags.append("phase:" + ph.split("/")[1 if ph != "joining/none" else 0])
            outs = [o["out"] for o in model["ops"] if o["isReq"]]
            if "cancelled" in outs:
                tags.append("outcome:cancelled")
            if any(isinstance(o, dict) and o["gen"] < model["gen"] and i < len(outs) - 1 for i, o in enumerate(outs)):
                tags.append("outcome:older-generation-than-final")
            if sum(1 for t in model["trace"] if t == "launched/copied") >= 2:
                tags.append("two-or-more-copies")
        if "s" in impl["event_log"]:
            tags.append("cancel-event-set")
        return tags

    def sample(self, case, impl):
        if impl.get("free"):
            return {"setup": case["setup"], "programs": case["programs"], "chosen": impl["chosen"],
                    "requests": impl["reqs"], "final_store": impl["final_store"]}
        return {"labels": case["labels"], "inject": case.get("inject"), "outcomes": impl["outcomes"], "history": impl["truth"]}


def normalise(labels, inject=None):
    """make an arbitrary label list an executable, complete schedule: renumber operations in order of
    their cEnter, drop labels that are not enabled, complete every operation, append the epilogue.
    An injection (mutations landed inside the copy loop of one wBegin) is kept if still meaningful."""
    m = Mirror()
    out = []
    ren = {}
    new_inject = None
    i = 0
    while i < len(labels):
        l = list(labels[i])
        is_inj = inject is not None and inject["at"] == i
        i += 1
        if l[0] not in MUT_LABELS:
            if l[0] == "cEnter":
                ren[l[1]] = len(m.ops)
            if l[1] not in ren:
                continue
            l[1] = ren[l[1]]
        if not m.enabled(l):
            continue
        ok_inj = is_inj and m.dirty() and bool(m.store)
        m.step(l)
        out.append(l)
        if ok_inj:
            nk = len(m.store) if m.ops[l[1]][2] == "copied" else 1
            if inject["poll"] <= nk:
                muts = [list(x) for x in labels[i: i + inject["n"]]]
                new_inject = {"at": len(out) - 1, "poll": inject["poll"], "n": len(muts)}
                for mu in muts:
                    m.step(mu)
                    out.append(mu)
                i += inject["n"]
    finish_all(m, out)
    final_request(m, out)
    case = {"kind": "shrunk", "labels": out}
    if new_inject:
        case["inject"] = new_inject
    return case


PROP = C13()
