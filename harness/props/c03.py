"""C03 — Parse fidelity: the AST mirrors the document's structure, text and lines.

Case kinds
  indent / sm / textblock   kernels of snooty/tinydocutils/statemachine.py against Model/Indent.lean
  sections                  title skeletons through the REAL parser against Model/Sections.lean
  escape                    escape2null / unescape / unescape_backslashes / parse_explicit_title against Model/Escape.lean
  doc                       the property: a generated document tree (Blk) is rendered by the Lean language model
                            (Model/DocLang.lean, which also yields the expected AST with start lines), parsed by the
                            real parser, and page.ast is compared with the expectation.
The rendered text and the expectation of a doc case are computed when the case is generated (one driver
batch), so run_impl / oracle need only the real parser."""
import copy
import json
import re
import signal

import core
from snooty import specparser
from snooty.tinydocutils import statemachine, nodes as dnodes, utils as dutils
from snooty import rstparser

from impl import rst as rstimpl

# --------------------------------------------------------------------------------------
# spec tables (rstspec.toml through snooty.specparser.Spec.get())
# --------------------------------------------------------------------------------------

# directives that are not "plain / admonition style": their handler or the visitor treats them specially
EXCLUDED_DIRECTIVES = {
    # own docutils handler (SPECIAL_DIRECTIVE_HANDLERS) or tabs machinery
    "code", "code-block", "sourcecode", "input", "output", "deprecated", "versionadded", "versionchanged", "toctree",
    "tabs", "tab", "tabs-pillstrip", "tabs-selector", "tabs-top",
    # visitor post-processing / validation / file access
    "glossary", "step", "collapsible", "wayfinding", "wayfinding-option", "wayfinding-description", "method-selector",
    "method-option", "method-description", "composable-tutorial", "selected-content", "io-code-block", "list-table",
    "todo", "figure", "image", "atf-image", "include", "sharedinclude", "literalinclude", "facet", "openapi",
    "openapi-changelog", "default-domain", "pubdate", "updated-date", "replacement", "multi-page-tutorial", "procedure",
    "guide", "time", "og", "twitter", "card", "chapter", "cta-banner", "button", "hlist", "languages", "meta", "role",
    "only", "cond", "entry", "ia", "quiz", "quizchoice", "instruqt", "video", "charts", "banner-legacy",
}
EXCLUDED_ROLES_PREFIX = ("icon",)
EXCLUDED_ROLES = {"doc", "rfc"}

SIMPLE_TYPES = {"string", "flag", "boolean", "nonnegative_integer", "uri", "length"}


def _opt_kind(spec, o):
    """classify an option type: ('string'|'flag'|'boolean'|'nonnegative_integer'|'uri'|'length'|'enum', choices)"""
    if isinstance(o, specparser.DirectiveOption):
        o = o.type
    if isinstance(o, specparser.PrimitiveType):
        return (o.name, None) if o.name in SIMPLE_TYPES else None
    if isinstance(o, str) and o in spec.enum:
        return ("enum", list(spec.enum[o]))
    return None


_TABLES = None
_TIMEOUTS = 0


def tables():
    global _TABLES
    if _TABLES is not None:
        return _TABLES
    spec = specparser.Spec.get()
    dirs = []
    for key, d in sorted(spec.directive.items()):
        name = key.split(":")[-1]
        if name.startswith("_") or name in EXCLUDED_DIRECTIVES or name.startswith("tabs-"):
            continue
        at = d.argument_type
        required_arg = False
        if isinstance(at, specparser.DirectiveOption):
            required_arg = bool(at.required)
            at = at.type
        if at is None:
            arg = "none"
        elif at == specparser.PrimitiveType.string:
            arg = "required" if required_arg else "optional"
        else:
            continue
        if d.content_type not in (None, "block"):
            continue
        opts = {}
        ok = True
        for oname, o in d.options.items():
            k = _opt_kind(spec, o)
            if k is None:
                if oname in d.required_options:
                    ok = False
                continue
            opts[oname] = {"kind": k[0], "choices": k[1], "required": oname in d.required_options}
        if not ok:
            continue
        dirs.append({"name": name, "domain": d.domain or "", "arg": arg, "body": d.content_type == "block",
                     "opts": opts, "key": key})
    roles = []
    for key, r in sorted(spec.role.items()):
        name = key.split(":")[-1]
        if name in EXCLUDED_ROLES or name.startswith(EXCLUDED_ROLES_PREFIX) or r.rstobject:
            continue
        t = r.type
        dom = r.domain or ""
        if not t or t == specparser.PrimitiveRoleType.text:
            roles.append({"markup": name, "kind": "text", "domain": dom, "name": name})
        elif t == specparser.PrimitiveRoleType.explicit_title:
            roles.append({"markup": name, "kind": "explicit_title", "domain": dom, "name": name})
        elif isinstance(t, specparser.LinkRoleType):
            if t.link.count("%s") != 1 or "%" in t.link.replace("%s", "") or len(t.format) > 1:
                continue
            pre, post = t.link.split("%s")
            roles.append({"markup": name, "kind": "link", "domain": dom, "name": name, "pre": pre, "post": post,
                          "slash": t.ensure_trailing_slash == True,  # noqa: E712
                          "fmt": (sorted(f.name for f in t.format) or [None])[0]})
        elif isinstance(t, specparser.RefRoleType):
            if len(t.format) > 1:
                continue
            roles.append({"markup": name, "kind": "ref", "domain": t.domain or dom, "name": t.name,
                          "pre": (t.tag + ".") if t.tag else "",
                          "fmt": (sorted(f.name for f in t.format) or [None])[0]})
    _TABLES = {"spec": spec, "dirs": dirs, "roles": roles}
    return _TABLES


FMT_KIND = {"monospace": "literal", "emphasis": "emphasis", "strong": "strong", None: None}

# --------------------------------------------------------------------------------------
# generators
# --------------------------------------------------------------------------------------

WORDS = ["alpha", "beta", "gamma", "delta", "epsilon", "Zeta", "eta", "Theta", "iota", "kappa", "lambda", "omega",
         "node", "graph", "query", "index", "shard", "replica", "The", "of", "and", "naïve", "日本語", "Ωmega", "to",
         "data42", "re-use", "it's", "a/b", "x=1", "50%", "(see", "this)", "done.", "yes,", "why?", "wow!"]
# character data that LOOKS like the start of inline markup but is not, by the recognition rules of the markup (a start-string
# that is quoted or bracketed, followed by whitespace, or inside a word): it stays plain text, in place, also when real markup follows
REJECTED_STARTS = ['"*"', "(*)", "2 * 3", "'`'", '"`"', "a*b", '"**"', "(**)", "(|)", '"|"', "'*'", "[*]", "<*>", "{*}", "* *", '"_"', "a_b",
                   "*", "**", "2*3*4", "«*»", "'_'", "(`)", "(*", '"*', "||", "'|'", "a|b", "`"]
SAFE_START = ["alpha", "beta", "gamma", "Theta", "node", "graph", "query", "The", "shard", "omega", "naïve", "Ωmega"]
TITLE_WORDS = ["Intro", "Setup", "Usage", "Details", "Advanced", "Notes", "Reference", "Overview", "Part", "Guide", "naïve"]
FOOT_NAMES = ["note", "fn-two", "caveat1"]
SUB_NAMES = ["prod", "the-version", "Long Name"]
TARGET_NAMES = ["docs", "home page", "api-ref"]
SHORT_TITLES = ["FAQ", "API", "Go", "Sub", "C", "Ab", "naï"]
STYLE_CHARS = "=-~^\"'#*+:._`"
LITERALS = ["x", "a*b", "f(x)", "a_b", "|pipe|", "<tag>", "a\\b", "two words", "k: v", "__init__", "*star*", "50%",
            "C:\\", "\\", "dir\\sub\\", "\\n", "a`b", "x\\ y", "**", "`"]
ESCAPES = ["*", "`", "_", "\\", "|"]
CODE_LINES = ["x = 1", "def f(a, *b):", "    return a", "", "  y = `z`", "print('**not bold**')", ":field: v", ".. not a comment",
              "- dash", "1. one", "a\\b", "    deep::", "\tTab", "| bar", "=====", "日本語 = 'ü'", "", "z"]
URIS = ["https://example.com/x", "http://a.b/c?d=e", "https://www.mongodb.com/docs/"]


def inl_text(s):
    return {"k": "text", "s": s}


class Gen:
    def __init__(self, rng):
        self.rng = rng
        self.t = tables()
        self.nlabel = 0

    def words(self, lo, hi, pool=WORDS):
        return [self.rng.choice(pool) for _ in range(self.rng.randint(lo, hi))]

    def role(self):
        rng = self.rng
        kind = rng.choice(["text", "explicit_title", "ref", "link", "link"])
        r = rng.choice([x for x in self.t["roles"] if x["kind"] == kind])
        spec = {"kind": r["kind"], "domain": r["domain"], "name": r["name"], "pre": r.get("pre", ""), "post": r.get("post", "")}
        if FMT_KIND[r.get("fmt")]:
            spec["fmt"] = FMT_KIND[r.get("fmt")]
        label = None
        if r["kind"] == "text":
            target = " ".join(self.words(1, 3, SAFE_START + ["Save", "OK", "Ctrl+C", "a b"]))
        else:
            if r["kind"] == "link":
                target = rng.choice(["/core/thing/", "/reference/op/", "/"]) if r["slash"] else rng.choice(
                    ["core/thing", "x", "path/to/page.html", "a-b_c"])
            elif r["kind"] == "ref":
                target = rng.choice(["some-label", "db.collection.find", "replica-set", "x"])
                if spec["pre"] and target.startswith(spec["pre"]):
                    target = "t" + target
            else:
                target = rng.choice(["/path/to", "https://example.com/a", "some-target", "v1.2"])
            if rng.random() < 0.6:
                label = " ".join(self.words(1, 3, SAFE_START + ["Label", "the docs", "find()"]))
        x = {"k": "role", "markup": r["markup"], "target": target, "spec": spec}
        if label is not None:
            x["label"] = label
            if rng.random() < 0.25:
                # a label written with backslash escapes: the reader sees the characters, not the backslashes
                # (escaped angle brackets must not be taken for the start of the target)
                pieces = [("Use the ", "Use the "), ("\\<b\\>", "<b>"), (" tag", " tag"), ("\\*x\\*", "*x*"), (" a\\<b", " a<b"), ("\\`q", "`q"),
                          (" c\\\\d", " c\\d"), ("1 \\< 2", "1 < 2")]
                chosen = [rng.choice(pieces) for _ in range(rng.randint(1, 3))]
                src = ("L" + "".join(a for a, _ in chosen)).rstrip()   # blanks before `<target>` belong to the separator
                # snooty's stated rule for explicit-title roles (rstparser.unescape_backslashes): a backslash disappears in front
                # of `<`, `>` and `"` only; every other escape keeps its backslash
                txt, i = "", 0
                while i < len(src):
                    if src[i] == "\\" and i + 1 < len(src):
                        txt += src[i + 1] if src[i + 1] in "<>\"" else src[i:i + 2]
                        i += 2
                    else:
                        txt += src[i]
                        i += 1
                x = {"k": "roleL", "markup": r["markup"], "labelSrc": src, "labelTxt": txt, "target": target, "spec": spec}
        return x

    def inline_item(self):
        rng = self.rng
        r = rng.random()
        if r < 0.22:
            return {"k": "emph", "s": " ".join(self.words(1, 2, SAFE_START))}
        if r < 0.4:
            return {"k": "strong", "s": " ".join(self.words(1, 2, SAFE_START))}
        if r < 0.6:
            return {"k": "literal", "s": rng.choice(LITERALS)}
        if r < 0.80:
            return self.role()
        if r < 0.84:
            return {"k": "footref", "name": rng.choice(FOOT_NAMES)}
        if r < 0.88:
            return {"k": "subref", "name": rng.choice(SUB_NAMES)}
        if r < 0.92:
            return {"k": "namedref", "name": rng.choice(TARGET_NAMES)}
        return {"k": "extref", "label": " ".join(self.words(1, 2, SAFE_START)) + str(rng.randint(0, 99999)),
                "uri": rng.choice(URIS)}

    def inlines(self, allow_nl=True, rich=True, lo=1, hi=8):
        """word/markup items separated by single spaces or line breaks; every line starts with a safe word"""
        rng = self.rng
        n = rng.randint(lo, hi)
        xs = [inl_text(rng.choice(SAFE_START))]
        for _ in range(n):
            if allow_nl and rng.random() < 0.2:
                # a plain line break, or (rarely) one with a backslash as the last character of the line
                xs.append({"k": "escnl"} if rng.random() < 0.15 else {"k": "nl"})
                xs.append(inl_text(rng.choice(SAFE_START)))
                continue
            xs.append({"k": "sp"})
            r = rng.random()
            if rich and r < 0.35:
                xs.append(self.inline_item())
                if rng.random() < 0.3:
                    xs.append(inl_text(rng.choice([",", ".", ";", "!", "?"])))
            elif rich and r < 0.45:
                xs.append(inl_text(rng.choice(["alpha", "x", "a"])))
                xs.append({"k": "esc", "c": rng.choice(ESCAPES)})
                xs.append(inl_text(rng.choice(["beta", "y", ""])))
                if xs[-1]["s"] == "":
                    xs.pop()
            elif r > 0.93:
                xs.append(inl_text(rng.choice(REJECTED_STARTS)))
                xs.append({"k": "sp"})
                xs.append(inl_text(rng.choice(SAFE_START)))
            else:
                xs.append(inl_text(rng.choice(WORDS)))
        return xs

    def para(self, **kw):
        return {"k": "para", "xs": self.inlines(**kw)}

    def label(self):
        self.nlabel += 1
        return {"k": "label", "name": self.rng.choice(["ref", "my-label", "a.b", "x_y", "sec"]) + "-" + str(self.nlabel)}

    def comment(self):
        return {"k": "comment", "lines": [" ".join(self.words(1, 4, SAFE_START + ["TODO", "note to self"]))] + [
            " ".join(self.words(1, 4)) for _ in range(self.rng.choice([0, 0, 1, 2]))]}

    def lineblock(self):
        return {"k": "lineblock", "lines": [self.inlines(allow_nl=False, rich=self.rng.random() < 0.4, lo=0, hi=3)
                                            for _ in range(self.rng.randint(1, 3))]}

    def code(self):
        rng = self.rng
        n = rng.randint(1, 6)
        lines = [rng.choice([l for l in CODE_LINES if l and not l.startswith((" ", "\t"))])]
        lines += [rng.choice(CODE_LINES) for _ in range(n - 1)]
        while lines and not lines[-1].strip():
            lines.pop()
        lines = [l.replace("\t", "        ") for l in lines]
        opts, attrs = [], {"copyable": True, "linenos": False, "emphasize_lines": [], "caption": None}
        if rng.random() < 0.3:
            cap = " ".join(self.words(1, 3, SAFE_START))
            opts.append(["caption", cap, cap]); attrs["caption"] = cap
        if rng.random() < 0.3:
            b = rng.random() < 0.5
            opts.append(["copyable", "true" if b else "false", b]); attrs["copyable"] = b
        if rng.random() < 0.3:
            opts.append(["linenos", "", True]); attrs["linenos"] = True
        if rng.random() < 0.3:
            a = rng.randint(1, len(lines)); b = rng.randint(a, len(lines))
            opts.append(["emphasize-lines", f"{a}-{b}" if b > a else str(a), None]); attrs["emphasize_lines"] = [[a, b]]
        blk = {"k": "code", "dirname": rng.choice(["code-block", "code-block", "code"]), "opts": opts,
               "attrs": [[k, v] for k, v in attrs.items()], "lines": lines}
        if rng.random() < 0.8:
            blk["lang"] = rng.choice(["python", "javascript", "sh", "none", "c++", "json"])
        return blk

    def opt_value(self, o):
        rng = self.rng
        k = o["kind"]
        if k == "string":
            return " ".join(self.words(1, 3, SAFE_START))
        if k == "flag":
            return ""
        if k == "boolean":
            return rng.choice(["true", "false"])
        if k == "nonnegative_integer":
            return str(rng.choice([0, 1, 2, 7, 42]))
        if k == "uri":
            return rng.choice(URIS)
        if k == "length":
            return rng.choice(["100px", "50%", "3em"])
        return rng.choice(o["choices"])

    def directive(self, depth):
        rng = self.rng
        d = rng.choice(self.t["dirs"])
        spec = self.t["spec"]
        blk = {"k": "directive", "name": d["name"], "domain": d["domain"], "arg": [], "opts": [], "kids": []}
        if d["arg"] == "required" or (d["arg"] == "optional" and rng.random() < 0.6):
            blk["arg"] = self.inlines(allow_nl=False, rich=rng.random() < 0.4, lo=0, hi=3)
            xs = blk["arg"]
            if len(xs) >= 3 and xs[1]["k"] == "sp" and xs[2]["k"] in ("role", "roleL") and rng.random() < 0.6:
                # an argument may BEGIN with a role (`.. note:: :guilabel:`Save` first`): it is the argument all the same
                blk["arg"] = xs[2:]
        sd = spec.directive[d["key"]]
        for oname, o in d["opts"].items():
            if o["required"] or rng.random() < 0.4:
                raw = self.opt_value(o)
                val = spec.get_validator(sd.options[oname])(raw if raw != "" else None)
                if not isinstance(val, (str, int, bool)) and val is not None:
                    val = str(val)
                blk["opts"].append([oname, raw, val])
        if d["body"] and (rng.random() < 0.85 or not (blk["arg"] or blk["opts"])):
            blk["kids"] = self.body(depth + 1, rng.randint(1, 2))
        return blk

    def directive_ml(self, depth):
        """a directive without options whose argument runs over two or more lines: the parser re-parses the argument as the first
        paragraph of the body, which therefore starts ON the directive's own line"""
        rng = self.rng
        cands = [d for d in self.t["dirs"] if d["body"] and d["arg"] != "required" and not any(o["required"] for o in d["opts"].values())]
        d = rng.choice(cands)
        xs = self.inlines(allow_nl=False, rich=rng.random() < 0.4, lo=0, hi=3)
        for _ in range(rng.choice([1, 1, 2])):
            xs.append({"k": "nl"})
            xs += self.inlines(allow_nl=False, rich=rng.random() < 0.4, lo=0, hi=3)
        # nextLine: nothing but the directive's name on its own line and the text right below it, without a blank line
        blk = {"k": "directiveML", "name": d["name"], "domain": d["domain"], "nextLine": rng.random() < 0.4, "arg": xs, "kids": []}
        if rng.random() < 0.6:
            blk["kids"] = self.body(depth + 1, rng.randint(1, 2))
        return blk

    def structured(self, depth):
        """directives excluded from the generic table because they want a particular body shape; none of them rewrites its children"""
        rng = self.rng
        spec = self.t["spec"]

        def dom(name):
            for key, d in spec.directive.items():
                if key.split(":")[-1] == name:
                    return d.domain or ""
            return ""
        r = rng.random()
        if r < 0.45:
            ncols = rng.randint(1, 3)

            def cell():
                kids = [self.para(hi=3)]
                if depth < 2 and rng.random() < 0.15:
                    kids += self.body(depth + 2, 1)
                return {"k": "item", "kids": kids}
            rows = [{"k": "item", "kids": [{"k": "bullet", "marker": "-", "items": [cell() for _ in range(ncols)]}]}
                    for _ in range(rng.randint(1, 3))]
            opts = []
            if rng.random() < 0.6:
                h = rng.choice([0, 1]) if len(rows) >= 2 else 0   # "List-table cannot have only header rows" is the directive's own rule
                opts.append(["header-rows", str(h), h])
            if rng.random() < 0.4:
                w = " ".join(str(rng.choice([10, 20, 30, 50])) for _ in range(ncols))
                opts.append(["widths", w, w])
            return {"k": "directive", "name": "list-table", "domain": dom("list-table"), "arg": [], "opts": opts,
                    "kids": [{"k": "bullet", "marker": "*", "items": rows}]}
        if r < 0.8:
            ids = rng.sample(["shell", "python", "nodejs", "java-sync", "compass"], rng.randint(1, 3))
            tabs = [{"k": "directive", "name": "tab", "domain": dom("tab"), "arg": [inl_text(i.capitalize())], "opts": [["tabid", i, i]],
                     "kids": self.body(depth + 2, rng.randint(1, 2))} for i in ids]
            return {"k": "directive", "name": "tabs", "domain": dom("tabs"), "arg": [], "opts": [], "kids": tabs}
        return {"k": "directive", "name": "only", "domain": dom("only"), "arg": [inl_text(rng.choice(["html", "man", "not man"]))], "opts": [],
                "kids": self.body(depth + 1, rng.randint(1, 2))}

    def items(self, depth):
        rng = self.rng
        out = []
        for _ in range(rng.randint(1, 4)):
            kids = [self.para(hi=4)]
            if depth < 3 and rng.random() < 0.25:
                kids += self.body(depth + 1, rng.randint(1, 2))
            out.append({"k": "item", "kids": kids})
        return out

    def enumerated(self, depth):
        rng = self.rng
        items = self.items(depth)
        fmt = rng.choice(["period", "rparen", "parens"])
        if rng.random() < 0.15:
            return {"k": "enumerated", "seq": "arabic", "fmt": fmt, "start": 1, "auto": True, "items": items}
        seq = rng.choice(["arabic", "loweralpha", "upperalpha", "lowerroman", "upperroman"])
        n = len(items)
        if seq == "arabic":
            start = rng.choice([1, 1, 1, 2, 3, 9, 10, 99, 100])
        elif seq.endswith("alpha"):
            start = rng.choice([1, 1, 2, 3, 5, 22, 24])
            start = min(start, 26 - n + 1)
            if start == 9:
                start = 10
        else:
            # any start whose numeral has more than one letter (a list that STARTS at v, x, l, c, d or m is an
            # alphabetic list by the rules of the markup), up to the end of the model's range (3999)
            start = rng.choice([1, 1, 2, 3, 4, 6, 7, 8, 9, 11, 14, 17, 19, 20, 21, 24, 39, 40, 49, 88, 99, 101, 400, 444, 499, 888,
                                999, 1994, 2024, 2999, 3888, 3990, rng.randint(2, 3990)])
            if start in (5, 10, 50, 100, 500, 1000):
                start += 1
        return {"k": "enumerated", "seq": seq, "fmt": fmt, "start": start, "auto": False, "items": items}

    def deflist(self, depth):
        rng = self.rng
        out = []
        for _ in range(rng.randint(1, 3)):
            kids = [self.para(hi=4)]
            if depth < 3 and rng.random() < 0.2:
                kids += self.body(depth + 1, 1)
            out.append({"k": "defitem", "term": self.inlines(allow_nl=False, rich=rng.random() < 0.3, lo=0, hi=2), "kids": kids})
        return {"k": "deflist", "items": out}

    KINDS = ["para", "para", "para", "bullet", "enumerated", "deflist", "lineblock", "comment", "label", "directive",
             "directive", "code", "footnote", "substdef", "blocksub", "namedtarget"]

    def body(self, depth, n):
        rng = self.rng
        out = []
        last = None
        for _ in range(n):
            kinds = [k for k in self.KINDS if k != last or k in ("para", "label", "comment", "directive", "code")]
            if depth >= 3:
                kinds = [k for k in kinds if k in ("para", "code", "comment", "lineblock", "label", "substdef", "namedtarget")]
            k = rng.choice(kinds)
            if k == "para":
                out.append(self.para())
            elif k == "bullet":
                out.append({"k": "bullet", "marker": rng.choice("-*+"), "items": self.items(depth)})
            elif k == "enumerated":
                out.append(self.enumerated(depth))
            elif k == "deflist":
                out.append(self.deflist(depth))
            elif k == "lineblock":
                out.append(self.lineblock())
            elif k == "comment":
                out.append(self.comment())
            elif k == "label":
                out.append(self.label())
            elif k == "directive":
                r = rng.random()
                out.append(self.structured(depth) if (depth < 2 and r < 0.2) else
                           (self.directive_ml(depth) if r < 0.32 else self.directive(depth)))
            elif k == "footnote":
                self.nfoot = getattr(self, "nfoot", 0) + 1
                my = self.nfoot
                kids = [self.para(allow_nl=rng.random() < 0.5)]
                if rng.random() < 0.4:
                    kids += self.body(depth + 1, 1)
                out.append({"k": "footnote", "name": rng.choice(FOOT_NAMES) if my == 1 else f"fn{my}", "kids": kids})
            elif k == "substdef":
                self.nsub = getattr(self, "nsub", 0) + 1
                xs = self.inlines(allow_nl=False, rich=False, lo=0, hi=3)
                if rng.random() < 0.5:
                    xs += [{"k": "sp"}, rng.choice([{"k": "emph", "s": "new"}, {"k": "strong", "s": "Bold"}, {"k": "literal", "s": "x_y"}])]
                out.append({"k": "substdef", "name": SUB_NAMES[self.nsub - 1] if self.nsub <= len(SUB_NAMES) else f"sub{self.nsub}", "xs": xs})
            elif k == "blocksub":
                out.append({"k": "blocksub", "name": rng.choice(SUB_NAMES)})
            elif k == "namedtarget":
                self.ntgt = getattr(self, "ntgt", 0) + 1
                out.append({"k": "namedtarget", "name": TARGET_NAMES[self.ntgt - 1] if self.ntgt <= len(TARGET_NAMES) else f"tgt{self.ntgt}",
                            "uri": rng.choice(URIS)})
            else:
                out.append(self.code())
            last = k
        if depth == 0 and len(out) >= 2 and rng.random() < 0.25:
            # a transition is only legal between two body elements of a section (never first or last, never doubled)
            out.insert(rng.randint(1, len(out) - 1), {"k": "transition", "style": rng.choice("-=~*_"), "len": rng.choice([4, 5, 12, 30])})
        return out

    def section(self, styles, depth, maxdepth):
        rng = self.rng
        title = [inl_text(rng.choice(TITLE_WORDS))]
        short = rng.random() < 0.2
        if short:
            # titles shorter than four characters: their adornment lines are as short as a would-be transition marker
            t = rng.choice(SHORT_TITLES)
            if len(t) < 3 and styles[depth][0] not in "=~^#":
                # a one- or two-character line of `.`/`_`/`-`/`+`/`*`/`|`/`:` is a comment, an anonymous target, a bullet or a
                # line block before it can be an adornment: that is the language, not a defect
                t = "FAQ"
            title = [inl_text(t)]
        for _ in range(0 if short else rng.randint(0, 2)):
            title.append({"k": "sp"})
            title.append(rng.choice([inl_text(rng.choice(TITLE_WORDS)), {"k": "literal", "s": "x_y"}, {"k": "emph", "s": "new"},
                                     inl_text(str(rng.randint(2, 99)))]))
        ch, over = styles[depth]
        kids = self.body(0, rng.choice([0, 1, 1, 2, 3]))
        if depth + 1 < maxdepth:
            for _ in range(rng.choice([0, 1, 1, 2])):
                kids.append(self.section(styles, depth + 1, maxdepth))
        return {"k": "section", "title": title, "style": ch, "over": over, "kids": kids}

    def layout(self):
        rng = self.rng
        return {"gap": rng.randint(0, 3), "gapMod": rng.choice([0, 0, 2, 3]), "bodyIndent": rng.choice([1, 2, 3, 3, 3, 4, 6]),
                "bulletPad": rng.choice([1, 1, 1, 2, 3]), "afterTitle": rng.choice([0, 1, 1, 2]),
                "underExtra": rng.choice([0, 0, 1, 5]), "itemGap": rng.choice([0, 0, 1, 2]),
                "padBlank": rng.random() < 0.2, "trailing": rng.choice([0, 1, 3])}

    def doc(self):
        rng = self.rng
        maxdepth = rng.choice([1, 2, 2, 3, 3, 4])
        pool = [(c, o) for c in STYLE_CHARS for o in (False, True)]
        styles = rng.sample(pool, 4)
        blocks = []
        if rng.random() < 0.3:
            blocks += self.body(0, rng.randint(1, 2))
        for _ in range(rng.choice([1, 1, 2, 3])):
            blocks.append(self.section(styles, 0, maxdepth))
        return {"kind": "doc", "layout": self.layout(), "blocks": blocks}

    def small_doc(self):
        """one construct under one title (many of these: every directive / role / list style is reached quickly)"""
        rng = self.rng
        body = self.body(0, rng.randint(1, 3))
        ch = rng.choice(STYLE_CHARS)
        return {"kind": "doc", "layout": self.layout(),
                "blocks": [{"k": "section", "title": [inl_text(rng.choice(TITLE_WORDS))], "style": ch, "over": rng.random() < 0.3,
                            "kids": body}]}


def attach_render(cases):
    """render doc cases with the Lean language model (one batch)"""
    docs = [c for c in cases if c["kind"] == "doc" and "text" not in c]
    if not docs:
        return cases
    resp = core.run_driver([{"op": "c03.render", "layout": c["layout"], "blocks": c["blocks"]} for c in docs])
    for c, r in zip(docs, resp):
        if "error" in r:
            raise core.Infra(f"c03.render failed: {r['error']}")
        c["text"] = "\n".join(r["lines"]) + "\n"
        c["expected"] = r["expected"]
    return cases


# --------------------------------------------------------------------------------------
# normalising the real AST
# --------------------------------------------------------------------------------------

LINE_KINDS = {"paragraph", "directive", "code", "target", "heading", "transition", "footnote", "substitution_definition",
              "substitution_reference", "named_reference"}


def norm(node):
    t = node["type"]
    line = node["position"]["start"]["line"]
    kids = [norm(c) for c in node.get("children", [])]
    attrs = {}
    kind = t
    if t == "text":
        attrs["value"] = node["value"]
    elif t in ("role", "ref_role"):
        attrs = {"domain": node.get("domain"), "name": node.get("name"), "target": node.get("target")}
    elif t == "reference":
        attrs = {"refuri": node.get("refuri"), "refname": node.get("refname")}
    elif t == "footnote":
        attrs = {"name": node.get("name")}
    elif t == "footnote_reference":
        attrs = {"refname": node.get("refname")}
    elif t in ("substitution_definition", "substitution_reference"):
        attrs = {"name": node.get("name")}
    elif t == "named_reference":
        attrs = {"refname": node.get("refname"), "refuri": node.get("refuri")}
    elif t == "list":
        attrs = {"enumtype": node.get("enumtype"), "startat": node.get("startat")}
    elif t == "definitionListItem":
        kids = [{"kind": "term", "attrs": {}, "line": line, "kids": [norm(c) for c in node.get("term", [])]}] + kids
    elif t == "target":
        attrs = {"domain": node.get("domain"), "name": node.get("name")}
    elif t == "target_identifier":
        attrs = {"ids": node.get("ids")}
    elif t == "directive":
        attrs = {"domain": node.get("domain"), "name": node.get("name")}
        kids = [{"kind": "argument", "attrs": {}, "line": line, "kids": [norm(c) for c in node.get("argument", [])]},
                {"kind": "options", "attrs": dict(node.get("options") or {}), "line": line, "kids": []}] + kids
    elif t == "code":
        attrs = {"lang": node.get("lang"), "value": node.get("value"), "caption": node.get("caption"),
                 "copyable": node.get("copyable"), "linenos": node.get("linenos"),
                 "emphasize_lines": [list(p) for p in node.get("emphasize_lines") or []]}
    return {"kind": kind, "attrs": attrs, "line": line, "kids": kids}


def diff(exp, act, path="root"):
    """first difference between the expected tree and the normalised real tree: (category, message) or None"""
    if exp["kind"] != act["kind"]:
        return ("kind:" + exp["kind"], f"{path}: expected a {exp['kind']} node, the AST has {act['kind']}")
    k = exp["kind"]
    if k == "options":
        if exp["attrs"] != act["attrs"]:
            return ("options", f"{path}: directive options expected {exp['attrs']} got {act['attrs']}")
    elif k == "list":
        want = (exp["attrs"].get("enumtype"), exp["attrs"].get("startat"))
        got = (act["attrs"].get("enumtype"), act["attrs"].get("startat"))
        if want != got:
            return ("list-type", f"{path}: list (enumtype, startat) expected {want} got {got}")
    else:
        for a, v in exp["attrs"].items():
            if act["attrs"].get(a) != v:
                cat = "text" if a == "value" and k == "text" else f"attr:{k}.{a}"
                return (cat, f"{path}: {k}.{a} expected {v!r} got {act['attrs'].get(a)!r}")
    if exp.get("line") is not None and k in LINE_KINDS and exp["line"] != act["line"]:
        return ("line:" + k, f"{path}: {k} starts on line {exp['line']} ({exp.get('src')!r}) but reports line {act['line']}")
    ek, ak = exp["kids"], act["kids"]
    for i, (e, a) in enumerate(zip(ek, ak)):
        d = diff(e, a, f"{path}/{e['kind']}[{i}]")
        if d:
            return d
    if len(ek) != len(ak):
        extra = [x["kind"] for x in (ak[len(ek):] if len(ak) > len(ek) else ek[len(ak):])]
        return ("children:" + k, f"{path}: {k} expected {len(ek)} children {[x['kind'] for x in ek]} got {len(ak)} "
                                  f"{[x['kind'] for x in ak]} ({'unexpected' if len(ak) > len(ek) else 'missing'}: {extra})")
    return None


# --------------------------------------------------------------------------------------
# kernels: independent Python statements of the theorems (oracles)
# --------------------------------------------------------------------------------------

def is_blank(l):
    return not l.strip()


def indent_of(l):
    return len(l) - len(l.lstrip())


class C03(core.PropertyCheck):
    id = "C03"
    quick_budget = 24000
    thorough_budget = 240000
    rule = ("doc: random document trees (sections to depth 4 with 4 distinct adornment styles drawn from 13 characters x overline or "
            "not, paragraphs mixing plain words / backslash escapes / emphasis / strong / literal / text, explicit-title, ref and "
            "link roles of rstspec.toml / named hyperlinks with line breaks, bullet lists (3 markers), enumerated lists (5 sequences "
            "x 3 formats x start values x auto), definition lists, line blocks, comments, labels, every plain directive of "
            "rstspec.toml with spec-valid options and optional argument/body, code-block/code/sourcecode with options and verbatim "
            "lines, nested to depth 3) x layouts (blank-line counts, body indentation 1-6, marker padding, adornment length, "
            "blank lines after titles, padded blank lines, trailing lines); indent/sm/textblock: random line lists (blank, "
            "whitespace-only, short, over/under-indented lines) x every flag combination the callers use; sections: rendered "
            "section trees with every style assignment + random title sequences incl. skipped levels; escape: random strings over "
            "an alphabet of backslash, NUL, <, >, quote, space, newline and letters. non-trivial = distinct case content")
    assumptions = [
        "str.isspace is a parameter of the Indent/Escape models; the driver's ASCII table is compared with Python on every run and non-ASCII whitespace of a case is passed in",
        "re's \\s equals str.isspace on every code point (checked on every run)",
        "lines reaching the state machine are tab-expanded and right-stripped by string2lines (generators produce such lines)",
        "the expected AST of a document is what Model/DocLang.lean `emit` returns; its line claims are proved consistent with its own rendering (render_lines), its agreement with reST is established by this differential on the unchanged tree",
        "directive option values are converted by the spec's own validator (snooty.specparser), role URL templates and ref prefixes are read from the spec",
    ]

    # ---- hypotheses -------------------------------------------------------------------
    def static_obligations(self):
        out = []
        try:
            r = core.run_driver([{"op": "c03.ascii"}])[0]
            s_py = [cp for cp in range(128) if chr(cp).isspace()]
            out.append(("driver table asciiSpace == str.isspace on all ASCII code points", r.get("space") == s_py, str(r.get("space"))))
        except core.Infra as e:
            out.append(("driver ascii table", False, str(e)))
        bad = [cp for cp in range(0x110000) if not (0xD800 <= cp <= 0xDFFF) and bool(re.fullmatch(r"\s", chr(cp))) != chr(cp).isspace()]
        out.append(("re \\s == str.isspace on all code points (isSpace of parse_explicit_title)", not bad, str(bad[:5])))
        out.append(("isSpace(' ') holds (hypothesis of explicitTitle_roundtrip)", " ".isspace(), ""))
        t = tables()
        out.append(("spec tables: plain directives and roles available to the generator",
                    len(t["dirs"]) >= 30 and {r["kind"] for r in t["roles"]} == {"text", "explicit_title", "ref", "link"},
                    f"{len(t['dirs'])} directives, {len(t['roles'])} roles"))
        # enumerator rendering of the language model against Python's own arithmetic (independent of the parser's tables)
        reqs, want = [], []
        for n in list(range(1, 60)) + [90, 99, 400, 1994]:
            reqs.append({"op": "c03.enum", "seq": "upperroman", "fmt": "period", "n": n}); want.append(py_roman(n) + ".")
            reqs.append({"op": "c03.enum", "seq": "lowerroman", "fmt": "parens", "n": n}); want.append("(" + py_roman(n).lower() + ")")
        for n in range(1, 27):
            reqs.append({"op": "c03.enum", "seq": "loweralpha", "fmt": "rparen", "n": n}); want.append(chr(96 + n) + ")")
            reqs.append({"op": "c03.enum", "seq": "upperalpha", "fmt": "period", "n": n}); want.append(chr(64 + n) + ".")
        try:
            got = [r.get("marker") for r in core.run_driver(reqs)]
            out.append(("enumerator rendering of the language model == independent arithmetic (roman 1-59, alpha 1-26)", got == want,
                        str([(g, w) for g, w in zip(got, want) if g != w][:3])))
        except core.Infra as e:
            out.append(("enumerator rendering", False, str(e)))
        return out

    # ---- generation -------------------------------------------------------------------
    LINE_POOL = ["", " ", "   ", "x", " x", "  x", "   x", "    x", "     deep", "  two words", " x", "  y", "- item",
                 "  - nested", "text here", "      ", " a", "\x0bv", " \x0cff", "   em"]

    def gen_lines(self, rng):
        n = rng.choice([0, 1, 2, 3, 4, 5, 6, 8, 12])
        return [rng.choice(self.LINE_POOL) for _ in range(n)]

    def gen_indent(self, rng):
        lines = self.gen_lines(rng)
        start = rng.randint(0, max(0, len(lines) - 1)) if rng.random() < 0.95 else len(lines) + rng.randint(0, 2)
        c = {"kind": "indent", "lines": lines, "start": start, "until_blank": rng.random() < 0.3, "strip_indent": rng.random() < 0.8}
        m = rng.random()
        if m < 0.33:
            c["block_indent"] = rng.randint(0, 5)
        elif m < 0.66:
            c["first_indent"] = rng.randint(0, 5)
        elif m < 0.72:
            c["block_indent"] = rng.randint(0, 4); c["first_indent"] = rng.randint(0, 4)
        return c

    def gen_sm(self, rng):
        lines = self.gen_lines(rng) or ["x"]
        which = rng.choice(["indented", "known", "first_known"])
        c = {"kind": "sm", "lines": lines, "line_offset": rng.randint(0, len(lines) - 1), "input_offset": rng.choice([0, 0, 3, 17]),
             "which": which, "until_blank": rng.random() < 0.3, "strip_indent": rng.random() < 0.8,
             "indent": rng.randint(0, 5), "strip_top": rng.random() < 0.7}
        return c

    def gen_textblock(self, rng):
        lines = self.gen_lines(rng)
        return {"kind": "textblock", "lines": lines, "start": rng.randint(0, len(lines)), "flush_left": rng.random() < 0.5}

    def gen_tree(self, rng, depth, maxdepth):
        subs = []
        if depth < maxdepth:
            subs = [self.gen_tree(rng, depth + 1, maxdepth) for _ in range(rng.choice([0, 1, 1, 2, 3]))]
        return [rng.choice([0, 0, 1, 2]), subs]

    def render_tree(self, tree, styles, depth, out):
        body, subs = tree
        out.append(styles[depth])
        out.extend([""] * body)
        for s in subs:
            self.render_tree(s, styles, depth + 1, out)

    def gen_sections(self, rng):
        pool = [c + (c if o else "") for c in "=-~^\"'#*+" for o in (False, True)]
        if rng.random() < 0.6:
            styles = rng.sample(pool, 6)
            top = [rng.choice([0, 1]), [self.gen_tree(rng, 1, rng.choice([1, 2, 3, 4, 5])) for _ in range(rng.choice([1, 2, 3]))]]
            evs = [""] * top[0]
            for s in top[1]:
                self.render_tree(s, styles, 0, evs)
            return {"kind": "sections", "events": evs, "tree": top, "roundtrip": True}
        styles = rng.sample(pool, rng.randint(1, 5))
        return {"kind": "sections", "events": [rng.choice(styles + [""]) for _ in range(rng.randint(0, 10))], "roundtrip": False}

    ESC_ALPHABET = ["\\", "\\", "\x00", "<", ">", '"', " ", "\n", "a", "b", "é", "*", "\t", " "]

    def gen_escape(self, rng):
        m = rng.random()
        if m < 0.4:
            label = "".join(rng.choice(["a", "b", " ", "é", "\\", '"', "\x00", ">"]) for _ in range(rng.randint(0, 6))).rstrip()
            target = "".join(rng.choice(["a", "/", "<", ">", " ", "\\", "\x00", "~"]) for _ in range(rng.randint(0, 6)))
            text = label + rng.choice([" <", "<", "  <", "\t<", "\x00<", " \x00<"]) + target + rng.choice([">", ">", ">", ">\n", "> ", ">x", ""])
            return {"kind": "escape", "text": text, "label": label, "target": target}
        return {"kind": "escape", "text": "".join(rng.choice(self.ESC_ALPHABET) for _ in range(rng.randint(0, 10)))}

    def exhaustive(self):
        # every flag combination on a fixed set of line lists
        fixed = [["a", "  b", "", "   c", " ", "d"], ["- x", "  y", "", "    z", "w"], ["   ", "  q"], [], ["x"], [".. d::", "", "   body", "", "   more", "", "end"]]
        for lines in fixed:
            for start in range(0, max(1, len(lines))):
                for ub in (False, True):
                    for si in (False, True):
                        yield {"kind": "indent", "lines": lines, "start": start, "until_blank": ub, "strip_indent": si}
                        for k in (0, 2, 3):
                            yield {"kind": "indent", "lines": lines, "start": start, "until_blank": ub, "strip_indent": si, "block_indent": k}
                            yield {"kind": "indent", "lines": lines, "start": start, "until_blank": ub, "strip_indent": si, "first_indent": k}
        for text in ["", "\\", "a\\", "\\\\", "\\ x", "\\\nx", "a <b>", "a<b>", "<b>", "a <b>\n", "a \x00<b>", "a <b> <c>", "a <b", "\x00<x> <y>",
                     "l <t>>", "  <t>", "a\x00 b", '\x00"q\x00"', "x\x00\x00 y", "\x00\x00<a>"]:
            yield {"kind": "escape", "text": text}
        # sections: the witnesses of the theorems' examples
        yield {"kind": "sections", "events": ["=", "-", "~", "=", "~", "^"], "roundtrip": False}
        yield {"kind": "sections", "events": ["=", "", "-", "=", "-", "~~"], "roundtrip": False}

    def generate(self, rng, budget, tier):
        cases = []
        if tier != "search":
            cases += list(self.exhaustive())
        else:
            # the directed search after a broken tie asks for 10x the budget; every document carries its rendered text and
            # expected tree, so the stream is capped (a quarter of a million documents do not fit in memory)
            budget = min(budget, 36000)
        g = Gen(rng)
        n_doc = budget // 3 if tier != "search" else budget // 2
        for i in range(budget):
            r = i % 12
            if i < n_doc or tier == "search" and i % 2 == 0:
                cases.append(g.small_doc() if i % 3 else g.doc())
            elif r < 4:
                cases.append(self.gen_indent(rng))
            elif r < 6:
                cases.append(self.gen_sm(rng))
            elif r < 7:
                cases.append(self.gen_textblock(rng))
            elif r < 9:
                cases.append(self.gen_sections(rng))
            else:
                cases.append(self.gen_escape(rng))
        attach_render(cases)
        return iter(cases)

    def corpus(self):
        return attach_render(super().corpus())

    # ---- implementation ---------------------------------------------------------------
    def run_impl(self, case):
        """a parser that does not return within 20 s of CPU time counts as a crash (`Timeout`); after three of them in
        one worker process the remaining cases of that worker are skipped (`TimeoutSkipped`, not judged)"""
        global _TIMEOUTS
        if _TIMEOUTS >= 3:
            return {"exc": "TimeoutSkipped", "msg": "skipped after repeated timeouts"}

        # CPU time, not wall-clock time: a loaded machine (or a cold import in a fresh worker) must not look like a hang;
        # and a first timeout is retried once with twice the budget, so only a reproducible one is reported.
        def on_alarm(signum, frame):
            raise TimeoutError("parser did not return within 10 s and then 20 s of CPU time (120 s wall-clock backstop)")
        old_prof = signal.signal(signal.SIGPROF, on_alarm)
        old_alrm = signal.signal(signal.SIGALRM, on_alarm)
        try:
            for budget in (10, 20):
                try:
                    try:
                        signal.setitimer(signal.ITIMER_PROF, budget)
                        signal.alarm(120)
                        res = self.run_impl_inner(case)
                    finally:
                        signal.setitimer(signal.ITIMER_PROF, 0)
                        signal.alarm(0)
                    return res
                except TimeoutError as e:   # also when the timer fires while the `finally` above is being entered
                    signal.setitimer(signal.ITIMER_PROF, 0)
                    signal.alarm(0)
                    err = e
            _TIMEOUTS += 1
            return {"exc": "Timeout", "msg": str(err)}
        finally:
            signal.signal(signal.SIGPROF, old_prof)
            signal.signal(signal.SIGALRM, old_alrm)

    def run_impl_inner(self, case):
        k = case["kind"]
        if k == "indent":
            sl = statemachine.StringList(list(case["lines"]), "src")
            try:
                block, indent, bf = sl.get_indented(case["start"], case["until_blank"], case["strip_indent"],
                                                    case.get("block_indent"), case.get("first_indent"))
            except TimeoutError:
                raise
            except Exception as e:
                return {"exc": type(e).__name__}
            return {"exc": None, "block": list(block), "indent": indent, "blank_finish": bool(bf),
                    "offsets": [block.info(i)[1] for i in range(len(block))], "parent_unchanged": list(sl) == case["lines"]}
        if k == "textblock":
            sl = statemachine.StringList(list(case["lines"]), "src")
            try:
                b = sl.get_text_block(case["start"], case["flush_left"])
                return {"exc": None, "block": list(b)}
            except statemachine.UnexpectedIndentationError as e:
                return {"exc": "UnexpectedIndentationError", "block": list(e.args[0])}
        if k == "sm":
            sm = statemachine.StateMachine.__new__(statemachine.StateMachine)
            sm.input_lines = statemachine.StringList(list(case["lines"]), "src")
            sm.line_offset = case["line_offset"]
            sm.input_offset = case["input_offset"]
            sm.line = sm.input_lines[sm.line_offset]
            sm.observers = []
            try:
                if case["which"] == "indented":
                    b, ind, off, bf = sm.get_indented(case["until_blank"], case["strip_indent"])
                elif case["which"] == "known":
                    b, off, bf = sm.get_known_indented(case["indent"], case["until_blank"], case["strip_indent"])
                    ind = case["indent"]
                else:
                    b, ind, off, bf = sm.get_first_known_indented(case["indent"], case["until_blank"], case["strip_indent"], case["strip_top"])
            except TimeoutError:
                raise
            except Exception as e:
                return {"exc": type(e).__name__}
            return {"exc": None, "block": list(b), "indent": ind, "offset": off, "blank_finish": bool(bf), "line_offset": sm.line_offset,
                    "offsets": [b.info(i)[1] for i in range(len(b))]}
        if k == "escape":
            t = case["text"]
            tgt, lab = rstparser.parse_explicit_title(t)
            return {"exc": None, "escape2null": dutils.escape2null(t), "unescape": dnodes.unescape(t, False),
                    "unescape_restore": dnodes.unescape(t, True), "roundtrip": dnodes.unescape(dutils.escape2null(t), False),
                    "unescape_backslashes": rstparser.unescape_backslashes(t), "explicit_title": [tgt, lab],
                    "utils_unescape_same": dutils.unescape(t, False) == dnodes.unescape(t, False) and dutils.unescape(t, True) == dnodes.unescape(t, True)}
        if k == "sections":
            text, title_lines = skeleton_text(case["events"])
            try:
                page, diags = rstimpl.parse(text)
            except TimeoutError:
                raise
            except Exception as e:
                return {"exc": type(e).__name__, "msg": str(e)[:200]}
            incons = sorted(d.start[0] for d in diags if "Title level inconsistent" in d.message)
            other = [f"{type(d).__name__}:{d.message[:60]}" for d in diags if "Title level inconsistent" not in d.message]

            def shape(nd, lines):
                out = []
                for c in nd.get("children", []):
                    if c["type"] == "section":
                        out.append(shape(c, lines))
                    elif c["type"] == "heading":
                        lines.append(c["position"]["start"]["line"])
                    elif c["type"] == "paragraph":
                        out.append("o")
                return out
            hl = []
            tree = shape(page.ast.serialize(), hl)
            return {"exc": None, "tree": tree, "inconsistent_lines": incons, "other_diags": other, "heading_lines": sorted(hl),
                    "title_lines": title_lines}
        # doc
        try:
            page, diags = rstimpl.parse(case["text"])
        except TimeoutError:
            raise
        except Exception as e:
            return {"exc": type(e).__name__, "msg": str(e)[:300]}
        dg = [f"{type(d).__name__}@{d.start[0]}: {d.message[:80]}" for d in diags
              if not re.fullmatch(r'Directive "[^"]+" has been deprecated', d.message)]
        return {"exc": None, "ast": norm(page.ast.serialize()), "diags": dg}

    # ---- model ------------------------------------------------------------------------
    @staticmethod
    def spacechars(lines):
        return "".join(sorted({c for l in lines for c in l if ord(c) >= 128 and c.isspace()}))

    def model_request(self, case):
        k = case["kind"]
        if k == "indent":
            r = {"op": "c03.indent", "lines": case["lines"], "start": case["start"], "until_blank": case["until_blank"],
                 "strip_indent": case["strip_indent"], "spacechars": self.spacechars(case["lines"])}
            for key in ("block_indent", "first_indent"):
                if case.get(key) is not None:
                    r[key] = case[key]
            return r
        if k == "sm":
            return {"op": "c03.sm", **{key: case[key] for key in ("lines", "line_offset", "input_offset", "which", "until_blank",
                                                                   "strip_indent", "indent", "strip_top")},
                    "spacechars": self.spacechars(case["lines"])}
        if k == "textblock":
            return {"op": "c03.textblock", "lines": case["lines"], "start": case["start"], "flush_left": case["flush_left"],
                    "spacechars": self.spacechars(case["lines"])}
        if k == "sections":
            return {"op": "c03.sections", "events": case["events"]}
        if k == "escape":
            return {"op": "c03.escape", "text": case["text"], "spacechars": self.spacechars([case["text"]])}
        return {"op": "c03.render", "layout": case["layout"], "blocks": case["blocks"]}

    def compare(self, case, model, impl):
        k = case["kind"]
        if impl.get("exc") and k not in ("textblock",):
            return None if impl["exc"] == "TimeoutSkipped" else f"implementation raised {impl['exc']}"
        if k == "indent":
            for key in ("block", "indent", "blank_finish"):
                if model[key] != impl[key]:
                    return f"get_indented {key}: model {model[key]!r} impl {impl[key]!r}"
            return None
        if k == "sm":
            for key in ("block", "indent", "offset", "blank_finish", "line_offset"):
                if model[key] != impl[key]:
                    return f"{case['which']} {key}: model {model[key]!r} impl {impl[key]!r}"
            return None
        if k == "textblock":
            if model["exc"] != impl["exc"] or model["block"] != impl["block"]:
                return f"get_text_block: model {model} impl {impl}"
            return None
        if k == "escape":
            for key in ("escape2null", "unescape", "unescape_restore", "roundtrip", "unescape_backslashes", "explicit_title"):
                if model[key] != impl[key]:
                    return f"{key}: model {model[key]!r} impl {impl[key]!r}"
            return None
        if k == "sections":
            mt, n_inc = strip_x(model["doc"])
            if model["halted"]:
                return "model: root machine halted"
            if mt != impl["tree"]:
                return f"section tree: model {mt} impl {impl['tree']}"
            if n_inc != len(impl["inconsistent_lines"]):
                return f"inconsistent-title messages: model {n_inc} impl {len(impl['inconsistent_lines'])}"
            return None
        # doc: the driver must reproduce what was rendered at generation time
        if "\n".join(model["lines"]) + "\n" != case["text"] or model["expected"] != case["expected"]:
            return "render is not deterministic"
        return None

    # ---- direct oracle ----------------------------------------------------------------
    def oracle(self, case, impl):
        k = case["kind"]
        if impl.get("exc") == "TimeoutSkipped":
            return None
        if impl.get("exc") and k != "textblock":
            return f"crash: {impl['exc']}: {impl.get('msg', '')}"
        if k == "indent":
            return oracle_indent(case, impl)
        if k == "sm":
            # block line i comes from input line offset - input_offset + i
            for i, (l, o) in enumerate(zip(impl["block"], impl["offsets"])):
                src_i = impl["offset"] - case["input_offset"] + i
                if o != src_i or not (0 <= src_i < len(case["lines"])) or not case["lines"][src_i].endswith(l):
                    return f"offset: {case['which']}: block line {i} ({l!r}) is not input line offset-input_offset+{i} = {src_i}"
            return None
        if k == "textblock":
            return None
        if k == "escape":
            t = case["text"]
            if len(impl["escape2null"]) != len(t):
                return "escape: escape2null changed the length"
            if not impl["utils_unescape_same"]:
                return "escape: utils.unescape and nodes.unescape differ"
            if "\\" not in t and "\x00" not in t and impl["roundtrip"] != t:
                return f"escape: backslash-free text changed by escape2null+unescape: {impl['roundtrip']!r}"
            if "\x00" not in t and dnodes.unescape(impl["escape2null"], True) != t:
                return "escape: restore mode is not the inverse of escape2null"
            if "label" in case:
                lab, tgt = case["label"], case["target"]
                if t == lab + " <" + tgt + ">" and "<" not in lab and "\x00" not in t:
                    if impl["explicit_title"] != [tgt, lab]:
                        return f"explicit-title: {t!r} parsed as {impl['explicit_title']}, expected {[tgt, lab]}"
            return None
        if k == "sections":
            if case.get("roundtrip"):
                want = tree_shape(case["tree"])
                if impl["tree"] != want:
                    return f"sections: rendered tree {want} parsed as {impl['tree']}"
                if impl["inconsistent_lines"] or impl["other_diags"]:
                    return f"sections: diagnostics on a consistent skeleton: {impl['inconsistent_lines']} {impl['other_diags'][:2]}"
                if impl["heading_lines"] != impl["title_lines"]:
                    return f"sections: headings report lines {impl['heading_lines']}, underlines are on {impl['title_lines']}"
            return None
        # doc: the property
        exp = case["expected"][0]
        d = diff(exp, impl["ast"])
        if d:
            return f"{d[0]}| {d[1]}"
        if impl["diags"]:
            return f"diagnostic| well-formed document reported {impl['diags'][:2]}"
        return None

    # ---- qualified and unqualified spellings ----
    def extra_checks(self, tier, rng):
        """A directive or role of a domain can be written `name` (when the project's default_domain is that domain) or `domain:name`
        (anywhere). Both spellings are the same construct: same node kind, name, domain, argument / target, body, same problems
        reported. Every directive, role and rstobject the spec declares under a domain is parsed both ways."""
        from snooty import util
        from snooty.types import ProjectConfig
        spec = specparser.Spec.get()
        by_domain = {}
        for cat in ("directive", "role", "rstobject"):
            for key in getattr(spec, cat):
                d, nm = util.split_domain(key)
                if d:
                    by_domain.setdefault(d, []).append((cat, nm))

        def strip(x):
            if isinstance(x, dict):
                return {k: strip(v) for k, v in x.items() if k != "position"}
            if isinstance(x, list):
                return [strip(v) for v in x]
            return x

        def ser(text, dd):
            page, diags = rstimpl.parse(text, "test.txt", ProjectConfig(rstimpl.ROOT, "verif", default_domain=dd))
            return strip(page.ast.serialize()), sorted(type(x).__name__ for x in diags)

        viol, n_ = [], 0
        for d in sorted(by_domain):
            for cat, nm in sorted(by_domain[d]):
                forms = []
                if cat in ("role", "rstobject"):
                    forms.append(("Text :{q}:`foo` end.\n", "role"))
                if cat in ("directive", "rstobject"):
                    forms.append((".. {q}:: foo\n\n   body\n", "directive"))
                for form, what in forms:
                    n_ += 1
                    try:
                        a = ser(form.format(q=nm), d)
                        b = ser(form.format(q=f"{d}:{nm}"), None)
                    except Exception as e:
                        viol.append({"case": {"kind": "spelling", "domain": d, "name": nm, "what": what},
                                     "desc": f"spelling: parsing the {what} {d}:{nm} raised {type(e).__name__}: {e}"[:300], "key": "spelling:raised"})
                        return viol, {"qualified_vs_unqualified_spellings": n_}
                    if a != b:
                        viol.append({"case": {"kind": "spelling", "domain": d, "name": nm, "what": what, "text": form.format(q=nm)},
                                     "impl": {"unqualified_under_default_domain": a, "qualified": b},
                                     "desc": (f"spelling: the {what} `{nm}` under default_domain = {d!r} and the same {what} written `{d}:{nm}` are emitted "
                                              f"differently: {json.dumps(a, ensure_ascii=False)[:260]} vs {json.dumps(b, ensure_ascii=False)[:260]}"),
                                     "key": "spelling"})
                        return viol, {"qualified_vs_unqualified_spellings": n_}
        viol2, cov2 = self.argument_with_option()
        return viol + viol2, {"qualified_vs_unqualified_spellings": n_, **cov2}

    def argument_with_option(self):
        """A directive argument that runs over two lines keeps all its words when an option follows it: every word of the source
        appears in the emitted directive, in order (character data is neither dropped nor reordered). One document per directive
        of the spec that takes an argument, an option and a body."""
        spec = specparser.Spec.get()
        viol, n_ = [], 0
        for key in sorted(spec.directive):
            d = spec.directive[key]
            if d.argument_type is None or not d.options or d.content_type != "block" or ":" in key:
                continue
            at = d.argument_type
            if not (isinstance(at, specparser.DirectiveOption) or at == "string" or getattr(at, "type", None) == "string"
                    or str(at) in ("PrimitiveType.string", "string")):
                continue
            opt, val = None, None
            for o, ty in sorted(d.options.items()):
                if str(ty) in ("PrimitiveType.string", "string") or ty == "string":
                    opt, val = o, "optvalue"
                    break
                if str(ty) in ("PrimitiveType.flag", "flag"):
                    opt, val = o, ""
                    break
            if opt is None:
                continue
            words = ["Alphaword", "bravoword", "charlieword", "deltaword"]
            text = f".. {key}:: {words[0]} {words[1]}\n   {words[2]} *{words[3]}*\n   :{opt}: {val}\n\n   Bodyword.\n"
            n_ += 1
            try:
                page, diags = rstimpl.parse(text, "test.txt")
            except Exception as e:
                viol.append({"case": {"kind": "argopt", "text": text}, "desc": f"argopt: parsing raised {type(e).__name__}: {e}"[:300], "key": "argopt:raised"})
                break
            seen = []

            def walk(x):
                if isinstance(x, dict):
                    if x.get("type") == "text":
                        seen.append(x.get("value", ""))
                    for k_ in sorted(x, key=lambda k__: (k__ != "argument", k__)):   # source order: the argument comes first
                        if k_ != "options":
                            walk(x[k_])
                elif isinstance(x, list):
                    for v_ in x:
                        walk(v_)
            walk(page.ast.serialize())
            flat = " ".join(seen)
            pos, missing = 0, []
            for w in words + ["Bodyword"]:
                i = flat.find(w, pos)
                if i < 0:
                    missing.append(w)
                else:
                    pos = i
            if missing and not diags:
                viol.append({"case": {"kind": "argopt", "directive": key, "text": text},
                             "desc": (f"argopt: the words {missing} of the argument of `{key}` (second line of the argument, an option follows) are nowhere in the "
                                      f"emitted page and nothing is reported; text emitted: {flat!r}"),
                             "key": "argopt"})
                break
        return viol, {"two_line_argument_followed_by_option": n_}

    def finding_key(self, case, impl, desc):
        if "|" in desc:
            return desc.split("|")[0]
        return desc.split(":")[0]

    # ---- shrinking --------------------------------------------------------------------
    def shrink_candidates(self, case):
        if case["kind"] != "doc":
            if "lines" in case:
                for i in range(len(case["lines"])):
                    c = copy.deepcopy(case)
                    del c["lines"][i]
                    for key in ("start", "line_offset"):
                        if key in c and c[key] >= len(c["lines"]) > 0:
                            c[key] = len(c["lines"]) - 1
                    if c["lines"] or case["kind"] != "sm":
                        yield c
            if case["kind"] == "sections" and not case.get("roundtrip"):
                for i in range(len(case["events"])):
                    c = copy.deepcopy(case)
                    del c["events"][i]
                    yield c
            if case["kind"] == "escape" and "label" not in case:
                for i in range(len(case["text"])):
                    yield {"kind": "escape", "text": case["text"][:i] + case["text"][i + 1:]}
            return
        cands = []
        base = {k: v for k, v in case.items() if k not in ("text", "expected")}

        def variants(blocks):
            """smaller block lists"""
            for i, b in enumerate(blocks):
                yield blocks[:i] + blocks[i + 1:]
                for key in ("kids", "items"):
                    if key in b:
                        if b["k"] in ("section", "directive") and b[key]:
                            yield blocks[:i] + b[key] + blocks[i + 1:]
                        for sub in variants(b[key]):
                            if sub is None:
                                continue
                            if not sub and b["k"] in ("bullet", "enumerated", "deflist", "item", "defitem"):
                                continue
                            nb = dict(b); nb[key] = sub
                            yield blocks[:i] + [nb] + blocks[i + 1:]
                if b["k"] == "para" and len(b["xs"]) > 1:
                    # chunks = maximal runs of glued items; a chunk is removed together with the separator before it
                    chunks, cur = [], []
                    for x in b["xs"]:
                        if x["k"] in ("sp", "nl", "escnl"):
                            chunks.append(cur); cur = [x]
                        else:
                            cur.append(x)
                    chunks.append(cur)
                    if len(chunks) > 1:
                        yield blocks[:i] + [{"k": "para", "xs": chunks[0]}] + blocks[i + 1:]
                        for j in range(1, len(chunks)):
                            xs = [x for c in chunks[:j] + chunks[j + 1:] for x in c]
                            yield blocks[:i] + [{"k": "para", "xs": xs}] + blocks[i + 1:]
                if b["k"] == "directive":
                    if b["opts"]:
                        nb = dict(b); nb["opts"] = [o for o in b["opts"] if o[0] in required_opts(b)]
                        if nb["opts"] != b["opts"]:
                            yield blocks[:i] + [nb] + blocks[i + 1:]
                if b["k"] == "code" and len(b["lines"]) > 1 and not any(o[0] == "emphasize-lines" for o in b["opts"]):
                    nb = dict(b); nb["lines"] = b["lines"][:1]
                    yield blocks[:i] + [nb] + blocks[i + 1:]
        for v in variants(case["blocks"]):
            if v is None or not v:
                continue
            if not safe_sequence(v) or not styles_consistent(v):
                continue
            c = copy.deepcopy(base); c["blocks"] = copy.deepcopy(v)
            cands.append(c)
            if len(cands) >= 60:
                break
        plain = {"gap": 0, "gapMod": 0, "bodyIndent": 3, "bulletPad": 1, "afterTitle": 1, "underExtra": 0, "itemGap": 0,
                 "padBlank": False, "trailing": 0}
        if case["layout"] != plain:
            c = copy.deepcopy(base); c["layout"] = plain
            cands.insert(0, c)
        try:
            attach_render(cands)
        except core.Infra:
            return
        for c in cands:
            yield c

    # ---- evidence ---------------------------------------------------------------------
    def nontrivial_key(self, case, impl):
        if impl.get("exc") and case["kind"] != "textblock":
            return None
        c = {k: v for k, v in case.items() if k not in ("text", "expected")}
        return json.dumps(c, sort_keys=True, ensure_ascii=False)

    def branch_tags(self, case, model, impl):
        tags = ["kind:" + case["kind"]]
        if case["kind"] == "doc":
            seen = set()

            def walk(bs, depth):
                for b in bs:
                    seen.add("blk:" + b["k"])
                    if b["k"] == "section":
                        seen.add(f"section-depth:{depth + 1}")
                        seen.add("title:overline" if b["over"] else "title:underline")
                        walk(b["kids"], depth + 1)
                        continue
                    if b["k"] == "directive":
                        seen.add("directive:" + b["name"])
                        if b["opts"]:
                            seen.add("directive-with-options")
                        if b["arg"]:
                            seen.add("directive-with-argument")
                    if b["k"] == "enumerated":
                        seen.add("enum:" + ("auto" if b["auto"] else b["seq"]) + ":" + b["fmt"])
                    for x in b.get("xs", []) + b.get("arg", []) + b.get("term", []):
                        if x["k"] == "role":
                            seen.add("role-kind:" + x["spec"]["kind"])
                        elif x["k"] not in ("text", "sp"):
                            seen.add("inl:" + x["k"])
                    for key in ("kids", "items"):
                        if key in b:
                            walk(b[key], depth)
            walk(case["blocks"], 0)
            tags += sorted(t for t in seen if not t.startswith("directive:"))
            tags += sorted(t for t in seen if t.startswith("directive:"))[:3]
        elif case["kind"] == "indent":
            tags.append("indent:" + ("block" if case.get("block_indent") is not None else "") + ("first" if case.get("first_indent") is not None else ""))
        elif case["kind"] == "sm":
            tags.append("sm:" + case["which"])
        elif case["kind"] == "sections":
            tags.append("sections:" + ("roundtrip" if case.get("roundtrip") else "random"))
            if impl.get("inconsistent_lines"):
                tags.append("sections:inconsistent")
        return tags

    def sample(self, case, impl):
        if case["kind"] == "doc":
            return {"rst": case["text"], "ast_root_children": len(impl.get("ast", {}).get("kids", [])) if not impl.get("exc") else None}
        return {"case": case, "impl": impl}


# --------------------------------------------------------------------------------------
# helpers
# --------------------------------------------------------------------------------------

def py_roman(n):
    out = ""
    for v, s in [(1000, "M"), (900, "CM"), (500, "D"), (400, "CD"), (100, "C"), (90, "XC"), (50, "L"), (40, "XL"), (10, "X"),
                 (9, "IX"), (5, "V"), (4, "IV"), (1, "I")]:
        while n >= v:
            out += s
            n -= v
    return out


def required_opts(b):
    for d in tables()["dirs"]:
        if d["name"] == b["name"]:
            return {k for k, o in d["opts"].items() if o["required"]}
    return set()


MERGING = {"bullet", "enumerated", "deflist", "lineblock"}


def safe_sequence(blocks):
    """no two adjacent blocks that reST would merge; recursively"""
    prev = None
    for b in blocks:
        if b["k"] in MERGING and prev == b["k"]:
            return False
        prev = b["k"]
        for key in ("kids", "items"):
            if key in b and b["k"] not in ("bullet", "enumerated", "deflist") and not safe_sequence(b[key]):
                return False
            if key in b and b["k"] in ("bullet", "enumerated", "deflist"):
                for it in b[key]:
                    if not it.get("kids") or it["kids"][0]["k"] != "para" or not safe_sequence(it["kids"]):
                        return False
    return True


def styles_consistent(blocks):
    """every section of depth d uses the d-th style in order of first appearance, and nothing but sections follows a section"""
    order = []

    def go(bs, depth):
        seen_section = False
        for b in bs:
            if b["k"] == "section":
                seen_section = True
                st = (b["style"], b["over"])
                if st in order:
                    if order.index(st) != depth:
                        return False
                elif len(order) == depth:
                    order.append(st)
                else:
                    return False
                if not go(b["kids"], depth + 1):
                    return False
            elif seen_section:
                return False
        return True
    return go(blocks, 0)


def skeleton_text(events):
    """title skeleton -> rst text; returns (text, [underline line of each title])"""
    lines, tl = [], []
    n = 0
    for e in events:
        if e == "":
            n += 1
            lines += [f"Paragraph {n}.", ""]
        else:
            n += 1
            title = f"Title {n}"
            ad = e[0] * (len(title) + 2)
            if len(e) > 1:
                lines.append(ad)
            lines += [title, ad]
            tl.append(len(lines) - 1)
            lines.append("")
    return "\n".join(lines) + "\n", tl


def strip_x(doc):
    """model tree -> (tree without the inconsistent markers, number of them)"""
    n = 0

    def go(xs):
        nonlocal n
        out = []
        for x in xs:
            if x == "x":
                n += 1
            elif x == "o":
                out.append("o")
            else:
                out.append(go(x))
        return out
    return go(doc), n


def tree_shape(tree):
    body, subs = tree
    return ["o"] * body + [tree_shape(s) for s in subs]


def oracle_indent(case, impl):
    """the statements of getIndented_offset / getIndented_spec evaluated on the real result"""
    lines, start = case["lines"], case["start"]
    block = impl["block"]
    for i, (l, o) in enumerate(zip(block, impl["offsets"])):
        if o != start + i:
            return f"offset: block line {i} carries source offset {o}, expected {start + i}"
        if start + i >= len(lines) or not lines[start + i].endswith(l):
            return f"offset: block line {i} ({l!r}) is not a right part of input line {start + i}"
    if not impl["parent_unchanged"]:
        return "offset: get_indented modified the list it slices"
    if case.get("block_indent") is None and case.get("first_indent") is None:
        stop = start + len(block)
        taken = lines[start:stop]
        nb = [indent_of(l) for l in taken if not is_blank(l)]
        want = min(nb) if nb else 0
        if impl["indent"] != want:
            return f"spec: indent {impl['indent']} is not the minimum indentation {want} of the non-blank lines {taken}"
        strip = impl["indent"] if case["strip_indent"] else 0
        if block != [l[strip:] for l in taken]:
            return f"spec: block {block} is not lines[{start}:{stop}] with {strip} columns removed"
        if any(l and l[0] != " " for l in taken):
            return "spec: an unindented line was collected"
        if stop < len(lines):
            nxt = lines[stop]
            if not ((nxt and nxt[0] != " ") or (case["until_blank"] and is_blank(nxt))):
                return f"spec: stopped before line {stop} ({nxt!r}) which continues the block"
    return None


PROP = C03()
