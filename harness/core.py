"""Shared machinery of every check: Lean build + axiom audit, driver line protocol,
correspondence loop, decision procedure (DESIGN.md section 3.4), evidence / replay writers."""
from __future__ import annotations

import fcntl
import hashlib
import json
import multiprocessing
import os
import random
import re
import subprocess
import sys
import time
import traceback
from pathlib import Path
from typing import Any, Callable, Dict, Iterable, Iterator, List, Optional, Tuple

VERIF = Path(__file__).resolve().parent.parent
LEAN = VERIF / "lean"
DRIVER = LEAN / ".lake" / "build" / "bin" / "snooty_driver"
REPO = Path(os.environ.get("VERIF_REPO", "/repo"))
EVIDENCE = VERIF / "evidence"
REPLAYS = VERIF / "replays"
KNOWN = VERIF / "known_findings.json"
ALLOWED_AXIOMS = {"propext", "Classical.choice", "Quot.sound"}
NPROC = max(1, min(16, os.cpu_count() or 1))

TRUSTED_BASE = [
    "Lean 4.33.0 kernel (lake build; thorough tier re-checks .olean files with leanchecker)",
    "axioms allowed per theorem: propext, Classical.choice, Quot.sound (audited with #print axioms on every run); no native_decide/bv_decide/sorry/own axioms",
    "Lean compiler+runtime for executing the models in the driver (not for proofs)",
    "the correspondence harness (generators, canonicalisers, JSON line protocol) and value-level translators under /verif/harness",
    "CPython semantics of the modelled constructs; re, unicodedata, pickle, zlib, hashlib, tomli, PyYAML, threading primitives, the OS",
]


class Infra(Exception):
    """Infrastructure failure: exit 2, never a violation."""


# --------------------------------------------------------------------------------------
# Lean side
# --------------------------------------------------------------------------------------

def _lake_lock():
    (LEAN / ".lake").mkdir(exist_ok=True)
    f = open(LEAN / ".lake" / "verif.lock", "w")
    fcntl.flock(f, fcntl.LOCK_EX)
    return f


def lake_build(targets: List[str], timeout: int = 1500) -> Tuple[bool, str]:
    lock = _lake_lock()
    try:
        try:
            p = subprocess.run(
                ["lake", "build"] + targets,
                cwd=LEAN,
                stdout=subprocess.PIPE,
                stderr=subprocess.STDOUT,
                text=True,
                timeout=timeout,
            )
        except FileNotFoundError as e:
            raise Infra(f"lake not found: {e}")
        except subprocess.TimeoutExpired:
            raise Infra("lake build timed out")
        return p.returncode == 0, p.stdout
    finally:
        lock.close()


def strip_lean_comments(src: str) -> str:
    out = []
    i, n, depth = 0, len(src), 0
    in_str = False
    while i < n:
        if depth == 0 and not in_str and src.startswith("--", i):
            j = src.find("\n", i)
            i = n if j < 0 else j
            continue
        if not in_str and src.startswith("/-", i):
            depth += 1
            i += 2
            continue
        if depth > 0 and src.startswith("-/", i):
            depth -= 1
            i += 2
            continue
        if depth > 0:
            if src[i] == "\n":
                out.append("\n")
            i += 1
            continue
        c = src[i]
        if c == '"' and (i == 0 or src[i - 1] != "\\"):
            in_str = not in_str
        out.append(c)
        i += 1
    return "".join(out)


FORBIDDEN = re.compile(
    r"\b(sorry|admit|native_decide|bv_decide|implemented_by|unsafe)\b|^\s*axiom\s|maxHeartbeats\s+0\b|\bextern\b",
    re.M,
)


def forbidden_scan() -> List[str]:
    hits = []
    for f in sorted((LEAN / "SnootyVerif").rglob("*.lean")):
        body = strip_lean_comments(f.read_text())
        # string literals may legitimately contain words; drop them
        body = re.sub(r'"(?:\\.|[^"\\])*"', '""', body)
        for m in FORBIDDEN.finditer(body):
            line = body.count("\n", 0, m.start()) + 1
            hits.append(f"{f.relative_to(LEAN)}:{line}: {m.group(0).strip()}")
    return hits


def property_file(pid: str) -> Path:
    return LEAN / "SnootyVerif" / "Properties" / f"{pid}.lean"


def theorems_of(pid: str) -> Tuple[str, List[str]]:
    src = strip_lean_comments(property_file(pid).read_text())
    ns = re.search(r"^namespace\s+(\S+)", src, re.M)
    names = re.findall(r"^theorem\s+([^\s:({\[]+)", src, re.M)
    return (ns.group(1) if ns else ""), names


def theorem_at(pid: str, line: int) -> str:
    name = "?"
    for i, l in enumerate(property_file(pid).read_text().split("\n"), 1):
        m = re.match(r"\s*(?:theorem|example|def|lemma)\s*([^\s:({\[]*)", l)
        if m and i <= line:
            name = m.group(1) or f"example@{i}"
    return name


def audit_axioms(pid: str) -> Tuple[Dict[str, List[str]], List[str]]:
    """returns ({theorem: axioms}, problems)"""
    ns, names = theorems_of(pid)
    audit = LEAN / ".lake" / f"audit_{pid}.lean"
    lines = [f"import SnootyVerif.Properties.{pid}"]
    for nm in names:
        lines.append(f"#print axioms {ns + '.' if ns else ''}{nm}")
    audit.write_text("\n".join(lines) + "\n")
    lock = _lake_lock()
    try:
        p = subprocess.run(
            ["lake", "env", "lean", str(audit)], cwd=LEAN, stdout=subprocess.PIPE, stderr=subprocess.STDOUT, text=True, timeout=900
        )
    except subprocess.TimeoutExpired:
        raise Infra("axiom audit timed out")
    finally:
        lock.close()
    out = p.stdout
    res: Dict[str, List[str]] = {}
    for m in re.finditer(r"'([^']+)' depends on axioms: \[([^\]]*)\]", out, re.S):
        res[m.group(1).split(".")[-1]] = [a.strip() for a in m.group(2).replace("\n", " ").split(",") if a.strip()]
    for m in re.finditer(r"'([^']+)' does not depend on any axioms", out):
        res[m.group(1).split(".")[-1]] = []
    problems = []
    for nm in names:
        if nm not in res:
            problems.append(f"{nm}: no axiom report ({out.strip()[:200]})")
        else:
            bad = [a for a in res[nm] if a not in ALLOWED_AXIOMS]
            if bad:
                problems.append(f"{nm}: uses axioms {bad}")
    return res, problems


def run_driver(requests: List[dict], timeout: int = 1800) -> List[dict]:
    if not requests:
        return []
    if not DRIVER.exists():
        raise Infra("driver not built")
    data = "\n".join(json.dumps(r, ensure_ascii=False, separators=(",", ":")) for r in requests) + "\n"
    try:
        p = subprocess.run([str(DRIVER)], input=data.encode("utf-8"), stdout=subprocess.PIPE, stderr=subprocess.PIPE, timeout=timeout)
    except subprocess.TimeoutExpired:
        raise Infra("driver timed out")
    lines = p.stdout.decode("utf-8").split("\n")
    if lines and lines[-1] == "":
        lines.pop()
    if len(lines) != len(requests):
        raise Infra(f"driver answered {len(lines)} lines for {len(requests)} requests; stderr={p.stderr.decode()[:400]}")
    return [json.loads(l) for l in lines]


# --------------------------------------------------------------------------------------
# Property check base class
# --------------------------------------------------------------------------------------

class PropertyCheck:
    id = "C00"
    level = "proof"
    parallel = True
    quick_budget = 1000
    thorough_budget = 10000
    rule = ""
    assumptions: List[str] = []
    extra_trusted: List[str] = []

    # --- hooks -------------------------------------------------------------------------
    def gen_tables(self) -> List[str]:
        """regenerate Gen/*.lean from /repo; return list of translator problems"""
        return []

    def static_obligations(self) -> List[Tuple[str, bool, str]]:
        """hypotheses of theorems checked exhaustively on the running Python (name, ok, detail)"""
        return []

    def corpus(self) -> List[dict]:
        d = VERIF / "harness" / "corpus" / self.id
        out = []
        if d.is_dir():
            for f in sorted(d.glob("*.json")):
                c = json.loads(f.read_text())
                c.setdefault("origin", f"corpus/{f.name}")
                out.append(c)
        return out

    def generate(self, rng: random.Random, budget: int, tier: str) -> Iterator[dict]:
        return iter(())

    def model_request(self, case: dict) -> Optional[dict]:
        return None

    def run_impl(self, case: dict) -> dict:
        raise NotImplementedError

    def compare(self, case: dict, model: Optional[dict], impl: dict) -> Optional[str]:
        return None

    def oracle(self, case: dict, impl: dict) -> Optional[str]:
        return None

    def finding_key(self, case: dict, impl: dict, desc: str) -> str:
        return desc

    def killed_impl(self, case: dict) -> dict:
        """what to file for a case whose worker had to be killed (no answer within CASE_KILL_S)"""
        raise Infra(f"the implementation did not come back within {CASE_KILL_S:.0f} s on case {json.dumps(case, default=str)[:300]}")

    def skipped_impl(self, case: dict) -> dict:
        """what to file for a case that was not run because KILL_LIMIT workers were lost before"""
        raise Infra("cases skipped after repeated hangs, and the property does not say how to file them")

    def shrink_candidates(self, case: dict) -> Iterator[dict]:
        return iter(())

    def nontrivial_key(self, case: dict, impl: dict) -> Optional[str]:
        """a string identifying the case if it is non-trivial, else None"""
        return json.dumps(case, sort_keys=True, default=str)

    def branch_tags(self, case: dict, model: Optional[dict], impl: dict) -> List[str]:
        return []

    def sample(self, case: dict, impl: dict) -> Any:
        return case

    def extra_checks(self, tier: str, rng: random.Random) -> Tuple[List[dict], dict]:
        """non-case-shaped work (subprocess differentials, …): returns (violations, coverage extras).
        each violation: {"case":…, "desc":…, "key":…}"""
        return [], {}


def _impl_worker(args):
    prop, case = args
    try:
        return prop.run_impl(case)
    except Infra:
        raise
    except BaseException as e:  # harness bug or unexpected: surfaces as impl exception
        return {"harness_exc": f"{type(e).__name__}: {e}", "tb": traceback.format_exc()[-2000:]}


_POOL_PROP = None


def _pool_init(prop):
    global _POOL_PROP
    _POOL_PROP = prop


def _pool_run(case):
    return _impl_worker((_POOL_PROP, case))


def isolated_call(fn, arg, timeout_s: float):
    """fn(arg) in a forked child, its (picklable) result handed back through a pipe; (True, result) or (False, None) when the child
    had to be killed because it did not answer within timeout_s (a loop inside one C call cannot be interrupted from within)"""
    import pickle
    import select
    import signal as _signal
    r, w = os.pipe()
    pid = os.fork()
    if pid == 0:
        code = 1
        try:
            os.close(r)
            data = pickle.dumps(fn(arg))
            while data:
                data = data[os.write(w, data):]
            code = 0
        finally:
            os._exit(code)
    os.close(w)
    buf, deadline, killed = b"", time.time() + timeout_s, False
    while True:
        left = deadline - time.time()
        if left <= 0:
            killed = True
            break
        ready, _, _ = select.select([r], [], [], left)
        if not ready:
            killed = True
            break
        chunk = os.read(r, 1 << 16)
        if not chunk:
            break
        buf += chunk
    os.close(r)
    if killed:
        try:
            os.kill(pid, _signal.SIGKILL)
        except OSError:
            pass
    try:
        os.waitpid(pid, 0)
    except OSError:
        pass
    if not killed and buf:
        try:
            return True, pickle.loads(buf)
        except Exception:
            pass
    return False, None


IN_STREAM_WORKER = False   # True in the forked workers of run_impl_many
CASE_KILL_S = float(os.environ.get("VERIF_CASE_KILL_S", "60"))   # wall seconds one case may keep a worker without answering
KILL_LIMIT = 12                                                   # after this many killed workers the rest of the stream is not run


def run_impl_many(prop: PropertyCheck, cases: List[dict]) -> List[dict]:
    """Run the implementation on every case, in forked workers that the parent can lose: a worker whose case does not come back
    within CASE_KILL_S is killed by the parent (nothing inside the worker could do it: Python signal handlers and threads do not
    run while the interpreter sits inside one C call that keeps the GIL, e.g. a regular expression that backtracks for hours); the
    parent then files that case as `prop.killed_impl(case)` and
    hands the rest of the worker's cases to a new worker. After KILL_LIMIT such losses the remaining cases are filed as
    `prop.skipped_impl(case)`: the hangs seen are reported with their inputs, which decides the run."""
    if not cases:
        return []
    if not (prop.parallel and len(cases) >= 64 and NPROC > 1):
        return [_impl_worker((prop, c)) for c in cases]
    import pickle
    import select
    import signal as _signal
    import threading as _threading
    n = len(cases)
    results: List[Optional[dict]] = [None] * n
    workers = {}      # read fd -> [pid, pending indices (in order), buffer]
    kills = 0

    def spawn(idxs):
        r, w = os.pipe()
        pid = os.fork()
        if pid == 0:
            code = 1
            try:
                os.close(r)
                global IN_STREAM_WORKER
                IN_STREAM_WORKER = True
                for i in idxs:
                    res = _impl_worker((prop, cases[i]))
                    data = pickle.dumps((i, res))
                    data = len(data).to_bytes(8, "big") + data
                    while data:
                        data = data[os.write(w, data):]
                code = 0
            finally:
                os._exit(code)
        os.close(w)
        workers[r] = [pid, list(idxs), b"", time.time()]

    per = max(1, -(-n // (NPROC * 4)))
    queue = [list(range(k, min(n, k + per))) for k in range(0, n, per)]
    while queue and len(workers) < NPROC:
        spawn(queue.pop(0))
    while workers:
        ready, _, _ = select.select(list(workers), [], [], 5.0)
        now = time.time()
        for r, wk in workers.items():
            if r not in ready and wk[1] and now - wk[3] > CASE_KILL_S:
                # no answer for its current case: the worker is killed from outside (its end of file is handled below)
                try:
                    os.kill(wk[0], _signal.SIGKILL)
                except OSError:
                    pass
                wk[3] = now
        for r in ready:
            pid, pending, buf, _t = workers[r]
            chunk = os.read(r, 1 << 20)
            if chunk:
                workers[r][3] = time.time()
                buf += chunk
                while len(buf) >= 8:
                    ln = int.from_bytes(buf[:8], "big")
                    if len(buf) < 8 + ln:
                        break
                    i, res = pickle.loads(buf[8:8 + ln])
                    buf = buf[8 + ln:]
                    results[i] = res
                    pending.remove(i)
                workers[r][2] = buf
                continue
            # end of file: the worker is gone
            os.close(r)
            del workers[r]
            try:
                os.waitpid(pid, 0)
            except OSError:
                pass
            if pending:
                kills += 1
                first, rest = pending[0], pending[1:]
                results[first] = prop.killed_impl(cases[first])
                if kills >= KILL_LIMIT:
                    for i in rest:
                        results[i] = prop.skipped_impl(cases[i])
                    for q in queue:
                        for i in q:
                            results[i] = prop.skipped_impl(cases[i])
                    queue = []
                elif rest:
                    queue.insert(0, rest)
            while queue and len(workers) < NPROC:
                spawn(queue.pop(0))
    return results  # type: ignore


# --------------------------------------------------------------------------------------
# known findings
# --------------------------------------------------------------------------------------

def load_known(pid: str) -> Dict[str, str]:
    if not KNOWN.exists():
        return {}
    data = json.loads(KNOWN.read_text())
    return {f["key"]: f["what"] for f in data.get("findings", []) if f["property"] == pid}


# --------------------------------------------------------------------------------------
# main loop
# --------------------------------------------------------------------------------------

def shrink(prop: PropertyCheck, case: dict, key: str, is_viol: Callable[[dict], Optional[str]], limit: int = 300) -> dict:
    """greedy shrink preserving the same finding key; bounded in candidates AND in wall time (a case that makes the implementation
    hang costs a whole watchdog period per candidate: the replay is then less minimal, not later)"""
    steps = 0
    progress = True
    deadline = time.time() + float(os.environ.get("VERIF_SHRINK_S", "90"))
    while progress and steps < limit and time.time() < deadline:
        progress = False
        try:
            for cand in prop.shrink_candidates(case):
                steps += 1
                if steps >= limit or time.time() >= deadline:
                    break
                k = is_viol(cand)
                if k is not None and k == key:
                    case = cand
                    progress = True
                    break
        except Infra:
            raise
        except Exception:
            # a case the shrinker does not understand (e.g. one reported by extra_checks): keep it as found
            break
    return case


def write_replay(pid: str, payload: dict) -> str:
    REPLAYS.mkdir(exist_ok=True)
    blob = json.dumps(payload, sort_keys=True, ensure_ascii=False, indent=1, default=str)
    h = hashlib.sha1(blob.encode()).hexdigest()[:12]
    path = REPLAYS / f"{pid}-{h}.json"
    path.write_text(blob)
    return str(path.relative_to(VERIF))


def evaluate(prop: PropertyCheck, cases: List[dict], want_model: bool = True):
    """returns list of (case, model_resp, impl, disagreement, violation)"""
    reqs, idx = [], []
    if want_model:
        for i, c in enumerate(cases):
            r = prop.model_request(c)
            if r is not None:
                reqs.append(r)
                idx.append(i)
    model: List[Optional[dict]] = [None] * len(cases)
    driver_err = None
    if reqs:
        try:
            resp = run_driver(reqs)
            for i, r in zip(idx, resp):
                model[i] = r
        except Infra as e:
            driver_err = str(e)
    impls = run_impl_many(prop, cases)
    out = []
    for c, m, im in zip(cases, model, impls):
        if "harness_exc" in im:
            raise Infra(f"harness error on case {json.dumps(c, default=str)[:300]}: {im['harness_exc']}\n{im.get('tb','')}")
        dis = None
        if want_model and driver_err is None and (m is not None):
            if "error" in m and m.get("error_kind") == "driver":
                dis = f"driver error: {m['error']}"
            else:
                dis = prop.compare(c, m, im)
        viol = prop.oracle(c, im)
        out.append((c, m, im, dis, viol))
    return out, driver_err


def run_check(prop: PropertyCheck, tier: str, seed: int) -> int:
    t0 = time.time()
    pid = prop.id
    rng = random.Random(f"{pid}:{seed}")
    budget = prop.quick_budget if tier == "quick" else prop.thorough_budget
    prop.tier, prop.seed = tier, seed   # for hooks without a tier argument (static_obligations)
    ties_broken: List[str] = []

    # 1. translators
    try:
        for p in prop.gen_tables():
            ties_broken.append(f"translator:{p}")
    except Infra:
        raise
    except Exception as e:
        ties_broken.append(f"translator:{type(e).__name__}: {e}")

    # 2. build
    ok_driver, log_d = lake_build(["snooty_driver"])
    if not ok_driver:
        ties_broken.append("driver-build: " + "; ".join(re.findall(r"error: (.*)", log_d)[:5]))
    ok, log = lake_build([f"SnootyVerif.Properties.{pid}"])
    ns, names = theorems_of(pid)
    broken_theorems: List[str] = []
    if not ok:
        for m in re.finditer(r"error: (\S+?):(\d+):(\d+): (.*)", log):
            f, line = m.group(1), int(m.group(2))
            if f.endswith(f"Properties/{pid}.lean"):
                broken_theorems.append(theorem_at(pid, line))
            else:
                broken_theorems.append(f"{f}:{line}")
        if not broken_theorems:
            broken_theorems.append("build failed: " + log[-300:])
        ties_broken.append("proof:" + ",".join(sorted(set(broken_theorems))))
    axioms: Dict[str, List[str]] = {}
    if ok:
        axioms, problems = audit_axioms(pid)
        for p in problems:
            ties_broken.append("axiom-audit:" + p)
        hits = forbidden_scan()
        for h in hits:
            ties_broken.append("forbidden:" + h)
    leanchecker = None
    if ok and tier == "thorough":
        # independent re-check of the compiled proofs (thorough tier only)
        lock = _lake_lock()
        try:
            lc = subprocess.run(["lake", "env", "leanchecker", f"SnootyVerif.Properties.{pid}"], cwd=LEAN,
                                stdout=subprocess.PIPE, stderr=subprocess.STDOUT, text=True, timeout=1500)
            leanchecker = {"rc": lc.returncode, "tail": lc.stdout[-300:]}
            if lc.returncode != 0:
                ties_broken.append("leanchecker: " + lc.stdout[-200:])
        except (FileNotFoundError, subprocess.TimeoutExpired) as e:
            leanchecker = {"rc": None, "tail": f"not run: {e}"}
        finally:
            lock.close()
    static = prop.static_obligations()
    for name, sok, detail in static:
        if not sok:
            ties_broken.append(f"hypothesis:{name}: {detail}")

    # 3. corpus + generated cases
    cases = prop.corpus() + list(prop.generate(rng, budget, tier))
    results, driver_err = evaluate(prop, cases, want_model=ok_driver)
    if driver_err:
        raise Infra(driver_err)
    disagreements = [(c, m, im, d) for (c, m, im, d, v) in results if d]
    violations = [(c, im, v) for (c, m, im, d, v) in results if v]
    extra_viol, extra_cov = prop.extra_checks(tier, rng)

    # 4. decide
    known = load_known(pid)
    printed_known = set()
    new_viol = []
    for c, im, v in violations:
        k = prop.finding_key(c, im, v)
        if k in known:
            if k not in printed_known:
                printed_known.add(k)
                print(f"KNOWN-FINDING: property={pid} {known[k]} [{k}]")
        else:
            new_viol.append((c, im, v, k))
    for ev in extra_viol:
        if ev["key"] in known:
            if ev["key"] not in printed_known:
                printed_known.add(ev["key"])
                print(f"KNOWN-FINDING: property={pid} {known[ev['key']]} [{ev['key']}]")
        else:
            new_viol.append((ev["case"], ev.get("impl", {}), ev["desc"], ev["key"]))

    exit_code = 0
    replay_paths = []
    searched = 0

    def viol_key(cand: dict) -> Optional[str]:
        im = _impl_worker((prop, cand))
        if "harness_exc" in im:
            return None
        v = prop.oracle(cand, im)
        return prop.finding_key(cand, im, v) if v else None

    def report(c, im, v, k, extra=None):
        nonlocal exit_code
        small = shrink(prop, c, k, viol_key) if isinstance(c, dict) else c
        path = write_replay(pid, {
            "property": pid, "seed": seed, "tier": tier, "finding_key": k, "violation": v,
            "case": small, "original_case": c if small is not c else None,
            "reproduce": f"./check {pid} --replay <this file>", **(extra or {}),
        })
        replay_paths.append(path)
        print(f"VIOLATION property={pid} replay={path}")
        exit_code = 1

    if new_viol:
        seen_keys = set()
        for c, im, v, k in new_viol:
            if k in seen_keys:
                continue
            seen_keys.add(k)
            if len(seen_keys) > 5:
                break
            report(c, im, v, k)
    elif ties_broken or disagreements:
        # directed search: disagreeing cases first (already oracle-checked above: no violation),
        # then a 10x random budget with the direct oracle only.
        found = None
        srng = random.Random(f"{pid}:{seed}:search")
        extra_cases = list(prop.generate(srng, budget * (10 if tier == "quick" else 3), "search"))
        searched = len(extra_cases)
        sres, _ = evaluate(prop, extra_cases, want_model=False)
        for (c, m, im, d, v) in sres:
            if v:
                k = prop.finding_key(c, im, v)
                if k not in known:
                    found = (c, im, v, k)
                    break
        broken_desc = {
            "ties_broken": ties_broken,
            "disagreements": [
                {"case": c, "model": m, "impl": im, "why": d} for (c, m, im, d) in disagreements[:5]
            ],
            "n_disagreements": len(disagreements),
        }
        if found:
            report(*found, extra={"broken": broken_desc})
        else:
            path = write_replay(pid, {
                "property": pid, "seed": seed, "tier": tier,
                "no_failing_input_found": True,
                "searched_cases": searched + len(cases),
                "broken": broken_desc,
                "reproduce": f"./check {pid} --tier {tier}",
            })
            replay_paths.append(path)
            print(f"VIOLATION property={pid} replay={path} no-failing-input-found")
            exit_code = 1

    # 5. evidence
    nontriv = set()
    tags: Dict[str, int] = {}
    for (c, m, im, d, v) in results:
        k = prop.nontrivial_key(c, im)
        if k is not None:
            nontriv.add(hashlib.sha1(k.encode()).hexdigest())
        for t in prop.branch_tags(c, m, im):
            tags[t] = tags.get(t, 0) + 1
    samples = [prop.sample(c, im) for (c, m, im, d, v) in results[:: max(1, len(results) // 3)][:3]]
    n_thm = len(names)
    discharged = 0 if not ok else sum(1 for nm in names if nm in axioms and all(a in ALLOWED_AXIOMS for a in axioms[nm]))
    n_static = len(static)
    cov = {
        "obligations": n_thm + n_static,
        "discharged": discharged + sum(1 for s in static if s[1]),
        "checker_cmd": f"cd lean && lake build SnootyVerif.Properties.{pid} && lake env lean .lake/audit_{pid}.lean  (via ./check {pid} --tier {tier})",
        "trusted_base": TRUSTED_BASE + list(prop.extra_trusted),
        "theorems": {nm: axioms.get(nm) for nm in names},
        "hypotheses_checked_on_implementation": [{"name": s[0], "ok": s[1], "detail": s[2]} for s in static],
        "evaluations": len(results),
        "distinct_nontrivial": len(nontriv),
        "rule": prop.rule,
        "samples": samples if samples else [{"note": "no generated cases"}],
        "correspondence": {
            "cases_compared_with_model": sum(1 for r in results if r[1] is not None),
            "disagreements": len(disagreements),
            "oracle_violations": len(violations),
            "known_findings_hit": sorted(printed_known),
            "search_cases_after_broken_tie": searched,
        },
        "distribution": dict(sorted(tags.items())),
        "ties_broken": ties_broken,
        "leanchecker": leanchecker,
        "replays": replay_paths,
    }
    cov.update(extra_cov)
    ev = {
        "property_id": pid,
        "tier": tier,
        "seed": seed,
        "level": prop.level if prop.level in ("exploration", "fault_enumeration", "model_checking", "proof", "translation_validation", "other") else "proof",
        "coverage": cov,
        "assumptions": list(prop.assumptions),
        "wall_s": round(time.time() - t0, 2),
        "violations": len(replay_paths),
    }
    EVIDENCE.mkdir(exist_ok=True)
    (EVIDENCE / f"{pid}.json").write_text(json.dumps(ev, indent=1, ensure_ascii=False, default=str) + "\n")
    status = "ok" if exit_code == 0 else "VIOLATION"
    print(f"[{pid}] {status}: theorems {discharged}/{n_thm}, hypotheses {sum(1 for s in static if s[1])}/{n_static}, "
          f"cases {len(results)} (nontrivial {len(nontriv)}), disagreements {len(disagreements)}, "
          f"known {len(printed_known)}, {ev['wall_s']}s")
    return exit_code


def run_replay(prop: PropertyCheck, path: str) -> int:
    data = json.loads(Path(path).read_text())
    if data.get("no_failing_input_found"):
        print(json.dumps(data["broken"], indent=1)[:4000])
        print("no concrete input stored; re-run the check: " + data["reproduce"])
        return 1
    case = data["case"]
    im = _impl_worker((prop, case))
    v = prop.oracle(case, im) if "harness_exc" not in im else im["harness_exc"]
    print(json.dumps({"case": case, "impl": im, "violation": v}, indent=1, ensure_ascii=False, default=str)[:6000])
    if v:
        print(f"VIOLATION property={prop.id} replay={path}")
        return 1
    print("replay: property holds on this input now")
    return 0
