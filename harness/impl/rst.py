"""In-process driver of the real parser on one text."""
from pathlib import Path
from typing import List, Optional, Tuple

from snooty import rstparser
from snooty.diagnostics import Diagnostic
from snooty.n import FileId
from snooty.page import Page
from snooty.parser import JSONVisitor, parse_rst as _parse_rst_multi
from snooty.types import ProjectConfig

ROOT = Path("/nonexistent-verif-root")


def make_parser(cfg: Optional[ProjectConfig] = None):
    cfg = cfg or ProjectConfig(ROOT, "verif")
    return rstparser.Parser(cfg, JSONVisitor)


def parse(text: str, fileid: str = "test.txt", cfg: Optional[ProjectConfig] = None) -> Tuple[Page, List[Diagnostic]]:
    parser = make_parser(cfg)
    page, diags = _parse_rst_multi(parser, FileId(fileid), text)[0]
    return page, diags
