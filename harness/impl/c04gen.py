"""C04 -- input generators and runners.

Generators build random reStructuredText documents / tiny multi-file projects from a grammar of
fragments (directives and roles are SAMPLED FROM the loaded rstspec), the runners push them through
the REAL snooty parser / postprocessor / Project.build() and return the serialized page ASTs
(JSON-able) together with the exceptions of serialize() / bson.encode().

Everything is deterministic given the `random.Random` passed in: no other randomness, no time,
nothing is chosen out of an unordered set/dict without sorting first.

Public API: gen_rst_case, run_rst, gen_project_case, run_project, CONSTRUCT_TAGS, shrink_rst,
shrink_project.
"""
from __future__ import annotations

import contextlib
import logging
import shutil
import tempfile
import unicodedata
from pathlib import Path
from typing import Any, Dict, Iterator, List, Optional, Tuple

import bson

import core  # noqa: F401  (core.REPO: the repo under test is selected through VERIF_REPO)
from impl import pp as _pp
from impl import rst as _rst

import requests.exceptions
from snooty import parser as _sparser
from snooty import specparser, util as _sutil
from snooty.diagnostics import Diagnostic
from snooty.n import FileId
from snooty.parser import Project, ProjectBackend

REPO = core.REPO
# snooty logs warnings through `logging`; without any handler they would leak to stderr (lastResort)
logging.getLogger("snooty").addHandler(logging.NullHandler())
PREFIX = ["verif", "user", "branch"]
MSG_LIMIT = 300

# --------------------------------------------------------------------------------------
# small helpers
# --------------------------------------------------------------------------------------


def _exc_str(e: BaseException) -> str:
    msg = str(e)
    if len(msg) > MSG_LIMIT:
        msg = msg[:MSG_LIMIT] + "..."
    return f"{type(e).__name__}: {msg}"


def _jsonable(x: Any, flags: Dict[str, bool]) -> Any:
    """tuples -> lists, non-str keys -> str(key) (+flag), unknown leaves -> {"$pyobj": type name}"""
    if x is None:
        return None
    t = type(x)
    if t is str or t is int or t is bool or t is float:
        return x
    if t is dict:
        out = {}
        for k, v in x.items():
            if type(k) is not str:
                flags["nonstr_key"] = True
                k = str(k)
            out[k] = _jsonable(v, flags)
        return out
    if t is list or t is tuple:
        return [_jsonable(v, flags) for v in x]
    # subclasses of the plain types
    if isinstance(x, bool):
        return bool(x)
    if isinstance(x, str):
        return str.__str__(x) if type(x).__str__ is str.__str__ else "".join(x)
    if isinstance(x, int):
        return int(x)
    if isinstance(x, float):
        return float(x)
    if isinstance(x, dict):
        return _jsonable(dict(x), flags)
    if isinstance(x, (list, tuple)):
        return [_jsonable(v, flags) for v in x]
    return {"$pyobj": type(x).__name__}


def _diag_triples(diags) -> List[List[Any]]:
    out = []
    for d in diags or []:
        try:
            sev = d.severity.name
        except Exception:
            sev = "?"
        try:
            line = int(d.start[0])
        except Exception:
            line = -1
        out.append([type(d).__name__, sev, line])
    return out


def _page_dict(fileid: FileId, page, stage: str, diags) -> Dict[str, Any]:
    """Serialize one page exactly like main.py's Backend.on_update + ZipBackend.handle_document do."""
    res: Dict[str, Any] = {
        "fileid": fileid.as_posix(),
        "source_fileid": page.fileid.as_posix(),
        "stage": stage,
        "is_page": fileid.suffix == _sutil.EXT_FOR_PAGE,
        "ast": None,
        "ser_exc": None,
        "bson_exc": None,
        "diagnostics": _diag_triples(diags),
    }
    raw = None
    try:
        raw = page.ast.serialize()
    except Exception as e:  # snooty's failure: data for the judge
        res["ser_exc"] = _exc_str(e)
    if raw is None:
        return res
    assets: List[Dict[str, str]] = []
    try:
        uploadable = [a for a in page.static_assets if a.can_upload()]
        uploadable.sort(key=lambda a: a.key)
        assets = [{"checksum": a.get_checksum(), "key": a.key} for a in uploadable]
    except Exception as e:
        res["assets_exc"] = _exc_str(e)
    try:
        document: Dict[str, Any] = {
            "page_id": "/".join(PREFIX + [fileid.without_known_suffix]),
            "filename": fileid.as_posix(),
            "ast": raw,
            "source": page.source,
            "static_assets": assets,
        }
        if page.facets:
            document["facets"] = [f.serialize() for f in page.facets]
            flags0: Dict[str, bool] = {}
            res["facets"] = _jsonable(document["facets"], flags0)
        bson.encode(document)
    except Exception as e:
        res["bson_exc"] = _exc_str(e)
    flags: Dict[str, bool] = {}
    res["ast"] = _jsonable(raw, flags)
    if flags.get("nonstr_key"):
        res["nonstr_key"] = True
    return res


# --------------------------------------------------------------------------------------
# in-process guards: no network, no child processes (both restored afterwards)
# --------------------------------------------------------------------------------------


def _no_network_get(self, url, cache_interval=None):
    raise requests.exceptions.ConnectionError(f"network disabled by the C04 harness: {url}")


class _SerialPool:
    """stand-in for multiprocessing.Pool: same three methods Project.parse_rst_files uses"""

    def __init__(self, *a, **kw) -> None:
        pass

    def imap_unordered(self, func, iterable, chunksize=1):
        for item in iterable:
            yield func(item)

    imap = imap_unordered

    def map(self, func, iterable, chunksize=None):
        return [func(i) for i in iterable]

    def close(self) -> None:
        pass

    def join(self) -> None:
        pass

    def terminate(self) -> None:
        pass


class _SerialMP:
    """what `snooty.parser.multiprocessing` is replaced by during run_project"""

    Pool = _SerialPool

    def __getattr__(self, name):
        import multiprocessing

        return getattr(multiprocessing, name)


@contextlib.contextmanager
def _guards(serial_pool: bool = False):
    old_get = _sutil.HTTPCache.get
    old_mp = _sparser.multiprocessing
    _sutil.HTTPCache.get = _no_network_get
    if serial_pool:
        _sparser.multiprocessing = _SerialMP()
    try:
        yield
    finally:
        _sutil.HTTPCache.get = old_get
        _sparser.multiprocessing = old_mp


# --------------------------------------------------------------------------------------
# run_rst
# --------------------------------------------------------------------------------------


def run_rst(case: Dict[str, Any]) -> Dict[str, Any]:
    out: Dict[str, Any] = {"exc": None, "pages": [], "then_postprocessed": []}
    fileid = case.get("fileid", "index.txt")
    with _guards():
        try:
            cfg = _pp.config()
            page, diags = _rst.parse(case["text"], fileid, cfg)
            diags = list(diags)
            # Project.update()/_page_updated() finish the pending tasks before on_update
            page.finish(diags)
        except Exception as e:
            out["exc"] = _exc_str(e)
            return out
        out["pages"].append(_page_dict(page.fileid, page, "parse", diags))
        try:
            copied = _sutil.fast_deep_copy(page)  # what PageDatabase does before postprocessing
            result = _pp.run([copied], cfg)
        except Exception as e:
            out["exc_post"] = _exc_str(e)
            return out
        post = []
        for fid in sorted(result.pages, key=lambda f: f.as_posix()):
            p = result.pages[fid]
            d = list(diags) if p.fileid == page.fileid else []
            d += list(result.diagnostics.get(p.fileid, []))
            post.append(_page_dict(fid, p, "post", d))
        out["then_postprocessed"] = post
    return out


# --------------------------------------------------------------------------------------
# run_project
# --------------------------------------------------------------------------------------


class _Recorder(ProjectBackend):
    def __init__(self) -> None:
        self.set_diags: Dict[FileId, List[Diagnostic]] = {}
        self.events: List[Tuple[FileId, List[Diagnostic]]] = []
        self.pages: Dict[FileId, Any] = {}
        self.metadata: Dict[str, Any] = {}
        self.metadata_events = 0

    def on_progress(self, progress: int, total: int, message: str) -> None:
        pass

    def set_diagnostics(self, path, diagnostics) -> None:
        self.set_diags[path] = list(diagnostics)

    def on_diagnostics(self, path, diagnostics) -> None:
        self.events.append((path, list(diagnostics)))

    def on_update(self, prefix, build_identifiers, page_id, page) -> None:
        self.pages[page_id] = page

    def on_update_metadata(self, prefix, build_identifiers, field) -> None:
        self.metadata_events += 1
        self.metadata.update(field)

    def on_delete(self, page_id, build_identifiers) -> None:
        pass

    def flush(self) -> None:
        pass

    def diags_for(self, fid: FileId):
        if fid in self.set_diags:
            return self.set_diags[fid]
        out = []
        for k, v in self.events:
            if k == fid:
                out.extend(v)
        return out


def _write_files(root: Path, files: Dict[str, str]) -> None:
    for rel in sorted(files):
        if rel.startswith("/") or ".." in rel.split("/"):
            continue
        path = root.joinpath(rel)
        path.parent.mkdir(parents=True, exist_ok=True)
        data = files[rel]
        if isinstance(data, dict) and "hex" in data:
            path.write_bytes(bytes.fromhex(data["hex"]))   # a file that is not text
            continue
        with open(path, "w", encoding="utf-8", newline="") as f:
            f.write(data)


def run_project(case: Dict[str, Any]) -> Dict[str, Any]:
    out: Dict[str, Any] = {"exc": None, "pages": [], "parsed": [], "metadata_bson_exc": None}
    tmp = tempfile.mkdtemp(prefix="c04-")
    try:
        root = Path(tmp)
        _write_files(root, case["files"])
        backend = _Recorder()
        project = None
        with _guards(serial_pool=True):
            route = case.get("route", "build")
            try:
                # an explicit branch name avoids the `git rev-parse` subprocess
                project = Project(root, backend, {}, "branch")
                project.build(None, route != "update")
            except Exception as e:
                out["exc"] = _exc_str(e)
            if route == "update" and project is not None and out["exc"] is None:
                # Project.update(): every file is re-parsed and handed to the backend WITHOUT postprocessing
                out["update_excs"] = {}
                for rel in sorted(case["files"]):
                    if not rel.startswith("source/") or not rel.endswith((".txt", ".rst", ".yaml")):
                        continue
                    try:
                        project.update(FileId(rel[len("source/"):]))
                    except Exception as e:
                        out["update_excs"][rel] = _exc_str(e)
            pages = []
            for fid in sorted(backend.pages, key=lambda f: f.as_posix()):
                page = backend.pages[fid]
                pages.append(_page_dict(fid, page, "parse" if route == "update" else "post", backend.diags_for(page.fileid)))
            out["pages"] = pages
            parsed = []
            if project is not None:
                try:
                    raw = project._project.pages._parsed
                    for fid in sorted(raw, key=lambda f: f.as_posix()):
                        page, _src, diags = raw[fid]
                        parsed.append(_page_dict(fid, page, "parse", diags))
                except Exception as e:
                    out["parsed_exc"] = _exc_str(e)
            out["parsed"] = parsed
            try:
                bson.encode(backend.metadata)
            except Exception as e:
                out["metadata_bson_exc"] = _exc_str(e)
            flags: Dict[str, bool] = {}
            md = {k: v for k, v in backend.metadata.items() if k != "static_files"}
            out["metadata"] = _jsonable(md, flags)
            out["metadata_events"] = backend.metadata_events
            other = {}
            for fid in sorted(set(backend.set_diags) | {k for k, _ in backend.events}, key=lambda f: f.as_posix()):
                other[fid.as_posix()] = _diag_triples(backend.diags_for(fid))
            out["all_diagnostics"] = other
    finally:
        shutil.rmtree(tmp, ignore_errors=True)
    return out


# --------------------------------------------------------------------------------------
# tags / shrinking
# --------------------------------------------------------------------------------------


def _walk_tags(node: Any, acc: set) -> None:
    if isinstance(node, dict):
        t = node.get("type")
        if isinstance(t, str):
            acc.add("type:" + t)
            name = node.get("name")
            if isinstance(name, str):
                if t == "directive":
                    acc.add("dir:" + name)
                elif t in ("role", "ref_role"):
                    acc.add("role:" + name)
                elif t in ("target", "inline_target"):
                    acc.add("target:" + str(node.get("domain", "")) + ":" + name)
        for k in ("children", "argument", "term"):
            v = node.get(k)
            if isinstance(v, list):
                for c in v:
                    _walk_tags(c, acc)
    elif isinstance(node, list):
        for c in node:
            _walk_tags(c, acc)


def CONSTRUCT_TAGS(case: Dict[str, Any], result: Optional[Dict[str, Any]]) -> List[str]:
    acc: set = set()
    acc.add("kind:" + str(case.get("kind")))
    for t in case.get("tags", []) or []:
        acc.add(str(t))
    if result:
        for key in ("exc", "exc_post", "metadata_bson_exc"):
            if result.get(key):
                acc.add(key + ":" + str(result[key]).split(":")[0])
        for lst in ("pages", "then_postprocessed", "parsed"):
            for p in result.get(lst, []) or []:
                for key in ("ser_exc", "bson_exc"):
                    if p.get(key):
                        acc.add(key + ":" + str(p[key]).split(":")[0])
                if p.get("ast") is not None:
                    _walk_tags(p["ast"], acc)
                for d in p.get("diagnostics", []):
                    acc.add("diag:" + str(d[0]))
    return sorted(acc)


def _line_blocks(lines: List[str]) -> List[Tuple[int, int]]:
    """[start, end) ranges of maximal runs of non-blank lines"""
    out, start = [], None
    for i, l in enumerate(lines):
        if l.strip():
            if start is None:
                start = i
        elif start is not None:
            out.append((start, i))
            start = None
    if start is not None:
        out.append((start, len(lines)))
    return out


def _shrink_text(text: str) -> Iterator[str]:
    lines = text.split("\n")
    seen = {text}
    for a, b in _line_blocks(lines):
        cand = "\n".join(lines[:a] + lines[b:])
        if cand not in seen:
            seen.add(cand)
            yield cand
    for i in range(len(lines)):
        cand = "\n".join(lines[:i] + lines[i + 1:])
        if cand not in seen:
            seen.add(cand)
            yield cand


def shrink_rst(case: Dict[str, Any]) -> Iterator[Dict[str, Any]]:
    for t in _shrink_text(case["text"]):
        c = dict(case)
        c["text"] = t
        yield c


def shrink_project(case: Dict[str, Any]) -> Iterator[Dict[str, Any]]:
    files = case["files"]
    keep = ("snooty.toml", "source/index.txt")
    for rel in sorted(files):
        if rel in keep:
            continue
        c = dict(case)
        c["files"] = {k: v for k, v in files.items() if k != rel}
        yield c
    for rel in sorted(files):
        lines = files[rel].split("\n")
        for a, b in _line_blocks(lines):
            cand = "\n".join(lines[:a] + lines[b:])
            if cand == files[rel]:
                continue
            c = dict(case)
            c["files"] = dict(files)
            c["files"][rel] = cand
            yield c


# ======================================================================================
# GENERATORS
# ======================================================================================

_TABLES: Optional[Dict[str, Any]] = None
_RESOLVED_DOMAINS = ("mongodb", "std", "")


def _tables() -> Dict[str, Any]:
    """Sorted views of the loaded spec (built once)."""
    global _TABLES
    if _TABLES is not None:
        return _TABLES
    s = specparser.Spec.get()
    dirs: Dict[str, Any] = {}  # "domain:name" or "name" -> specparser.Directive
    for key in sorted(s.directive):
        if key.startswith("_"):
            continue
        dirs[key] = s.directive[key]
    objs: Dict[str, Any] = {}
    for key in sorted(s.rstobject):
        objs[key] = s.rstobject[key]
    tabs_base = s.directive["tabs"]
    for name in sorted(s.tabs):
        dirs.setdefault("tabs-" + name, tabs_base)
    roles: Dict[str, Any] = {}
    for key in sorted(s.role):
        roles[key] = s.role[key]
    _TABLES = {
        "spec": s,
        "dirs": dirs,
        "dir_keys": sorted(dirs),
        "objs": objs,
        "obj_keys": sorted(objs),
        "roles": roles,
        "role_keys": sorted(roles),
        "enum": {k: list(v) for k, v in s.enum.items()},
        "tabsets": {k: [t.id for t in v] for k, v in s.tabs.items()},
        "tabset_keys": sorted(s.tabs),
        "wayfinding": [o.id for o in s.wayfinding.get("options", [])],
        "methods": [o.id for o in s.method_selector.get("options", [])],
        "composables": [(c.id, [o.id for o in c.options]) for c in s.composables],
    }
    return _TABLES


def _written(key: str, rng, force_qualified: bool = False) -> str:
    """how a spec key 'domain:name' is written in a document"""
    domain, _, name = key.rpartition(":")
    if not domain:
        return name
    if domain not in _RESOLVED_DOMAINS or force_qualified:
        return key
    return key if rng.random() < 0.12 else name


WORDS = (
    "alpha beta gamma delta database collection index query shard replica mongod cluster the a of "
    "and to in is for with document field value returns option server driver atlas version"
).split()
UNI_WORDS = [
    "café", "naïve", "Ünïcödé", "日本語", "데이터",
    "данные", "éạ̈", "ﬁne", "\U0001d4b3", "\U0001f600",
    "zero​width", "１２３", "straße", "İstanbul", "שלום",
    "مرحبا", "a b", "—", "x⃝",
]
LABELS = ["intro", "install-guide", "ref-find", "faq-1", "Mixed_Case.Label", "dup-label", "a b c"]
SUB_NAMES = ["prod", "ver", "long-name", "img", "dash", "Mixed Case", "loop-a", "loop-b", "selfref", "undefined", "emph"]
URLS = ["https://example.com/", "https://example.com/a_b?q=1#frag", "http://example.org/x/y.html", "mailto:docs@example.com", "ftp://example.com/f"]
ICONS = ["trash-alt", "check", "ellipsis-h", "no-such-icon", "Edit"]
CALLABLES = ["db.collection.find()", "db.foo(a, b)", "db.createCollection()", "Mongo.getDB", "cursor.next( )"]
PLAIN_TARGETS = ["find", "$match", "mongod", "net.port", "replSetGetStatus", "a.b.c", "$", "with space"]
CMD_OPTIONS = ["--port", "mongod --port", "-f", "--config <file>", "--tlsMode"]
CODE_LINES = ['print("hello")', "db.coll.find({a: 1})", "", "   indented = |x|", "\tx = `y`", "// :ref:`not a role`", "{ \"a\": [1, 2] }", "$ mongod --port 27017", "# start-marker", "# end-marker"]
LANGS = ["python", "javascript", "sh", "json", "none", "Not A Lang", "c++", ""]


class G:
    """generator state for one document"""

    def __init__(self, rng, project: Optional[Dict[str, Any]] = None, budget: int = 30) -> None:
        self.rng = rng
        self.t = _tables()
        self.project = project or {}
        self.budget = budget
        self.level = -1
        self.subs: Dict[str, str] = {}
        self.fn_auto = 0
        self.fn_names: List[str] = []
        self.fn_nums: List[str] = []
        self.fn_sym = 0
        self.cites: List[str] = []
        self.labels: List[str] = []
        self.targets: List[str] = []
        self.tags: set = set()
        self.n_dirs = 0

    # -- primitives
    def p(self, x: float) -> bool:
        return self.rng.random() < x

    def ch(self, seq):
        return seq[self.rng.randrange(len(seq))]

    def wch(self, pairs):
        """weighted choice over [(weight, value)]"""
        total = sum(w for w, _ in pairs)
        r = self.rng.random() * total
        for w, v in pairs:
            r -= w
            if r < 0:
                return v
        return pairs[-1][1]

    def word(self) -> str:
        if self.p(0.07):
            self.tags.add("unicode-word")
            return self.ch(UNI_WORDS)
        return self.ch(WORDS)

    def words(self, lo: int = 1, hi: int = 5) -> str:
        return " ".join(self.word() for _ in range(self.rng.randint(lo, hi)))

    def known_labels(self) -> List[str]:
        return sorted(set(self.labels) | set(self.project.get("labels", [])))

    def docs(self) -> List[str]:
        return list(self.project.get("docs", [])) or ["/index", "/tutorial"]


def _width(s: str) -> int:
    w = 0
    for c in s:
        if unicodedata.combining(c):
            continue
        w += 2 if unicodedata.east_asian_width(c) in ("W", "F") else 1
    return max(w, len(s))


# --------------------------------------------------------------------------------------
# inline markup
# --------------------------------------------------------------------------------------


def role_text(g: G) -> str:
    t = g.t
    rng = g.rng
    kind = g.wch([(30, "fav"), (30, "any"), (22, "obj"), (5, "unknown")])
    if kind == "unknown":
        g.tags.add("role-unknown")
        return g.ch([":nosuchrole:`x`", ":nodomain:role:`x y`", ":mongodb:nosuch:`x`", ":py:`x`", "::`x`", ":ref:role:`x`"])
    if kind == "obj":
        key = g.ch(["mongodb:method", "mongodb:dbcommand", "std:option", "mongodb:binary", "mongodb:setting", "py:meth", "js:func", "mongodb:limit"]) if g.p(0.5) else g.ch(t["obj_keys"])
        obj = t["objs"][key]
        name = _written(key, rng) if g.p(0.93) else key.rpartition(":")[2]
        if obj.type == specparser.TargetType.callable:
            target = g.ch(CALLABLES)
        elif obj.type == specparser.TargetType.cmdline_option:
            target = g.ch(CMD_OPTIONS)
        else:
            target = g.ch(PLAIN_TARGETS)
        flag = g.wch([(75, ""), (15, "~"), (10, "!")])
        if g.p(0.25):
            return f":{name}:`{g.words(1, 2)} <{flag}{target}>`"
        return f":{name}:`{flag}{target}`"
    if kind == "fav":
        key = g.ch(["ref", "std:doc", "guilabel", "abbr", "manual", "icon", "term", "mongodb:ref", "file", "icon-fa5", "rfc", "mongodb:required", "hardlink", "sub", "wikipedia", "kbd"])
    else:
        key = g.ch(t["role_keys"])
    spec = t["roles"][key]
    name = _written(key, rng)
    rt = spec.type
    if key == "std:doc":
        target = g.ch(g.docs() + ["/missing-page", "relative-page", "/", "../up", "/index.txt"])
        if g.p(0.4):
            return f":{name}:`{g.words(1, 3)} <{target}>`"
        return f":{name}:`{target}`"
    if isinstance(rt, specparser.RefRoleType):
        labels = g.known_labels() + ["no-such-label"]
        target = g.ch(labels) if rt.name == "label" else g.ch(["replica set", "shard", "no such term"])
        flag = g.wch([(85, ""), (10, "~"), (5, "!")])
        if g.p(0.35):
            return f":{name}:`{g.words(1, 3)} <{flag}{target}>`"
        return f":{name}:`{flag}{target}`"
    if isinstance(rt, specparser.LinkRoleType):
        target = g.ch(["/reference/method", "/core/x/#frag", "x", "2822", "/a b", "%s", "/x?y=z"])
        if g.p(0.4):
            return f":{name}:`{g.words(1, 3)} <{target}>`"
        return f":{name}:`{target}`"
    if rt == specparser.PrimitiveRoleType.explicit_title:
        base = key.rpartition(":")[2]
        if base.startswith("icon"):
            return f":{name}:`{g.ch(ICONS)}`"
        target = g.ch(["https://example.com/x", "/path", "x"])
        if g.p(0.5):
            return f":{name}:`{g.words(1, 2)} <{target}>`"
        return f":{name}:`{target}`"
    # text roles
    if key == "abbr":
        return f":{name}:`{g.ch(['LIFO (last-in, first-out)', 'BSON', 'X ()', 'a (b) (c)'])}`"
    body = g.words(1, 3)
    if g.p(0.1):
        body += g.ch([" \\<x\\>", " <notatarget>", " *x*", " |prod|", " a\\`b"])
    return f":{name}:`{body}`"


def sub_ref(g: G) -> str:
    name = g.ch(SUB_NAMES)
    if name not in g.subs:
        if name == "undefined":
            g.subs[name] = "never"
        else:
            g.subs[name] = g.wch([(45, "before"), (35, "after"), (10, "never"), (10, "project")])
    return f"|{name}|"


def footnote_ref(g: G) -> str:
    k = g.wch([(40, "auto"), (30, "named"), (20, "num"), (10, "sym")])
    if k == "auto":
        g.fn_auto += 1
        return "[#]_"
    if k == "named":
        name = g.ch(["note1", "fn-a", "Note.B"])
        if name not in g.fn_names:
            g.fn_names.append(name)
        return f"[#{name}]_"
    if k == "num":
        num = g.ch(["1", "2", "42"])
        if num not in g.fn_nums:
            g.fn_nums.append(num)
        return f"[{num}]_"
    g.fn_sym += 1
    return "[*]_"


def inline_atom(g: G, ctx: str = "") -> str:
    kind = g.wch([
        (34, "words"), (5, "em"), (5, "strong"), (6, "lit"), (2, "interp"), (15, "role"), (6, "sub"),
        (3, "link"), (2, "named"), (1, "simple"), (0.5, "anon"), (1.2, "itarget"), (2.2, "fn"), (0.12, "cite"),
        (1.5, "url"), (1, "esc"), (0.4, "subref"),
    ])
    if kind == "words":
        return g.words(1, 6)
    if kind == "em":
        return f"*{g.words(1, 3)}*"
    if kind == "strong":
        return f"**{g.words(1, 3)}**"
    if kind == "lit":
        return "``" + g.ch([g.words(1, 2), "a `b` c", "|x|", "*x*", "\\n", "<tag>", ":ref:`x`"]) + "``"
    if kind == "interp":
        g.tags.add("interpreted-text")
        return "`" + g.ch([g.words(1, 2), "text <http://example.com>"]) + "`"
    if kind == "role":
        return role_text(g)
    if kind == "sub":
        return sub_ref(g)
    if kind == "link":
        return f"`{g.words(1, 3)} <{g.ch(URLS)}>`_"
    if kind == "named":
        name = g.ch(["Example Site", "docs", "MongoDB Manual", "undefined target"])
        if name != "undefined target" and name not in g.targets:
            g.targets.append(name)
        return f"`{name}`_"
    if kind == "simple":
        if "docs" not in g.targets:
            g.targets.append("docs")
        return "docs_"
    if kind == "anon":
        g.tags.add("anonymous-ref")
        return f"`{g.words(1, 2)}`__"
    if kind == "itarget":
        g.tags.add("inline-target")
        return f"_`{g.words(1, 2)}`"
    if kind == "fn":
        return footnote_ref(g)
    if kind == "cite" and g.project and not g.p(0.15):
        kind = "words"
        return g.words(1, 3)
    if kind == "cite":
        g.tags.add("citation")
        g.cites.append("CIT2002")
        return "[CIT2002]_"
    if kind == "url":
        return g.ch(URLS)
    if kind == "esc":
        return g.ch(["a\\*b", "\\\\", "x\\ y", "\\`", "2 * 3", "a_b", "c__", "snake_case_", "|", "a|b", "\\|x|"])
    name = g.ch(["prod", "docs"])
    g.subs.setdefault("prod", "before")
    if "docs" not in g.targets:
        g.targets.append("docs")
    return g.ch(["|prod|_", "|prod|__"])


def inline(g: G, hi: int = 4, ctx: str = "") -> str:
    parts = [inline_atom(g, ctx) for _ in range(g.rng.randint(1, hi))]
    s = " ".join(parts)
    # a line must not start with something that changes the block structure
    if s[:1] in "-+*|>=~^\"`#.:_[" and ctx != "raw" and not s.startswith(("*", "`", "|", ":", "_`", "[")):
        s = "x " + s
    return s


def para_lines(g: G, ctx: str = "") -> List[str]:
    n = g.wch([(60, 1), (30, 2), (10, 3)])
    lines = [inline(g, 4, ctx) for _ in range(n)]
    # continuation lines starting with markup that would end the paragraph are harmless; bullets are not
    return [lines[0]] + [("x " + l if l[:2] in ("- ", "* ", "+ ") else l) for l in lines[1:]]


# --------------------------------------------------------------------------------------
# directives
# --------------------------------------------------------------------------------------

PT = specparser.PrimitiveType


def _ind(lines: List[str], n: int = 3) -> List[str]:
    pad = " " * n
    return [pad + l if l else "" for l in lines]


def dl(name: str, arg: Optional[str] = None, opts=(), content=(), gap: bool = True) -> List[str]:
    out = [f".. {name}::" + (f" {arg}" if arg else "")]
    for k, v in opts:
        out.append(f"   :{k}: {v}".rstrip())
    if content:
        if gap:
            out.append("")
        out += _ind(list(content))
    return out


def opt_value(g: G, ty: Any, valid: bool = True) -> str:
    if isinstance(ty, specparser.DirectiveOption):
        ty = ty.type
    if isinstance(ty, list):
        ty = g.ch(ty)
    if isinstance(ty, PT):
        if ty == PT.integer:
            return g.ch(["3", "-2", "0", "+7"]) if valid else g.ch(["x", "1.5", ""])
        if ty == PT.nonnegative_integer:
            return g.ch(["0", "1", "2", "17", "99999999999999999999"]) if valid else g.ch(["-1", "two", ""])
        if ty == PT.path:
            return g.ch(["/images/missing.png", "relative/file.js", "/includes/x.rst", "../up.txt", "/a b.png"]) if valid else ""
        if ty == PT.uri:
            return g.ch(URLS + ["/relative/uri"]) if valid else g.ch(["", "a b c"])
        if ty == PT.string:
            return g.ch([g.words(1, 3), "a, b", ":ref:`x`", "|prod|", "*x*", "x: y", "\\:"]) if valid else ""
        if ty == PT.length:
            return g.ch(["50%", "100px", "3em", "12", "1.5in"]) if valid else g.ch(["wide", "10 px", "-"])
        if ty == PT.boolean:
            return g.ch(["true", "false", "True"]) if valid else g.ch(["maybe", "1", ""])
        if ty == PT.flag:
            return "" if valid else g.ch(["yes", "true"])
        if ty == PT.linenos:
            return g.ch(["1", "1-2", "1,3-4", "2-2"]) if valid else g.ch(["a-b", "9-3", "-1", "1,,2", "999"])
        return "x"
    if ty == "iso_8601":
        return g.ch(["2024-01-15", "2021-12-31"]) if valid else g.ch(["15/01/2024", "2024-13-01", "yesterday"])
    enum = g.t["enum"].get(ty) if isinstance(ty, str) else None
    if enum:
        return g.ch(enum) if valid else "bogus-choice"
    return g.words(1, 2)


def gen_options(g: G, spec: Any, p_opt: float = 0.3) -> List[Tuple[str, str]]:
    out: List[Tuple[str, str]] = []
    for name in sorted(spec.options):
        ty = spec.options[name]
        required = isinstance(ty, specparser.DirectiveOption) and ty.required
        if required:
            if g.p(0.1):
                g.tags.add("missing-required-option")
                continue
        elif not g.p(p_opt):
            continue
        valid = not g.p(0.1)
        if not valid:
            g.tags.add("invalid-option-value")
        out.append((name, opt_value(g, ty, valid)))
    if g.p(0.05):
        g.tags.add("unknown-option")
        out.append((g.ch(["bogus", "class", "name", "Weird Opt"]), "1"))
    if out and g.p(0.03):
        g.tags.add("duplicate-option")
        out.append(out[0])
    return out


def gen_argument(g: G, spec: Any, key: str) -> Optional[str]:
    ty = spec.argument_type
    required = isinstance(ty, specparser.DirectiveOption) and ty.required
    if isinstance(ty, specparser.DirectiveOption):
        ty = ty.type
    if ty is None:
        if g.p(0.06):
            g.tags.add("unexpected-argument")
            return g.words(1, 2)
        return None
    if required and g.p(0.08):
        g.tags.add("missing-required-argument")
        return None
    if not required and g.p(0.3):
        return None
    if spec.rstobject is not None:
        obj = spec.rstobject
        if obj.type == specparser.TargetType.callable:
            return g.ch(CALLABLES)
        if obj.type == specparser.TargetType.cmdline_option:
            return g.ch(["--port <port>", "--config <file>, -f <file>", "-v", "=bad", "--a, , --b"])
        return g.ch(PLAIN_TARGETS)
    if ty == PT.string or ty == "string" or ty == "str":
        a = inline(g, 3, "arg")
        if a.startswith(":"):
            a = "x " + a
        return a
    if isinstance(ty, list) or ty in (PT.path, PT.uri):
        return g.ch(["/images/missing.png", "/includes/missing.rst", "relative/missing.js", "/code/sample.js", "https://example.com/x.yaml", "cloud"])
    return opt_value(g, ty, not g.p(0.1))


def raw_content(g: G) -> List[str]:
    return [g.ch(CODE_LINES) for _ in range(g.rng.randint(1, 4))] or ["x"]


def generic_directive(g: G, key: str, depth: int) -> List[str]:
    spec = g.t["dirs"].get(key)
    if spec is None:
        spec = g.t["objs"][key].create_directive()
    name = _written(key, g.rng)
    arg = gen_argument(g, spec, key)
    opts = gen_options(g, spec)
    ct = spec.content_type
    content: List[str] = []
    if ct is None:
        if g.p(0.07):
            g.tags.add("unexpected-content")
            content = para_lines(g)
    elif ct == "raw":
        content = raw_content(g)
    elif ct == "string":
        content = [g.words(1, 4)] if g.p(0.3) else []
    elif ct == "list":
        content = b_bullet(g, depth + 1)
    elif ct == "list_table":
        content = table_rows(g, depth + 1)
    else:
        if g.p(0.9):
            content = blocks(g, depth + 1, g.rng.randint(1, 2))
            if spec.rstobject is not None and spec.rstobject.fields and g.p(0.6):
                content += ["", f":returns: {inline(g, 2)}"] + ([f":{g.ch(['bogus', 'param x'])}: y"] if g.p(0.3) else [])
    return dl(name, arg, opts, content)


# ---- specialised directive builders ---------------------------------------------------


def small_body(g: G, depth: int) -> List[str]:
    return blocks(g, depth + 1, g.rng.randint(1, 2))


def d_tabs(g: G, depth: int) -> List[str]:
    t = g.t
    mode = g.wch([(40, "plain"), (25, "named"), (15, "option"), (12, "legacy"), (8, "legacy-bad")])
    tabset = g.ch(t["tabset_keys"])
    ids = t["tabsets"][tabset]
    if mode in ("legacy", "legacy-bad"):
        g.tags.add("tabs-legacy-yaml")
        name = "tabs" if g.p(0.5) else "tabs-" + tabset
        body = ["hidden: true"] if g.p(0.3) else []
        body += ["tabs:"]
        for i in range(g.rng.randint(0, 2)):
            body += [f"  - id: {g.ch(ids)}", f"    name: {g.words(1, 2)}" if g.p(0.7) else "    # no name", "    content: |"] + _ind(small_body(g, depth + 1), 6)
        if mode == "legacy-bad":
            body += g.ch([["  - id: [unclosed"], ["  - name: no id", "    content: x"], ["  - 3"], ["  bad: : yaml"]])
        return dl(name, None, [], body)
    if mode == "plain":
        name, opts = "tabs", []
    elif mode == "named":
        name, opts = "tabs-" + tabset, []
    else:
        name, opts = "tabs", [("tabset", tabset if g.p(0.85) else "no-such-tabset")]
    if g.p(0.2):
        opts.append(("hidden", opt_value(g, PT.boolean, not g.p(0.1))))
    content: List[str] = []
    for i in range(g.rng.randint(0, 3)):
        if mode == "plain":
            tabid = g.ch(["one", "two", "Three 3", "one"])
        else:
            tabid = g.ch(ids) if g.p(0.85) else "unknown-tabid"
        topts = [("tabid", tabid)] if g.p(0.92) else []
        title = inline(g, 2, "arg") if g.p(0.7) else None
        if title and title.startswith(":"):
            title = "x " + title
        content += dl("tab", title, topts, small_body(g, depth + 1)) + [""]
    if g.p(0.12):
        g.tags.add("tabs-non-tab-child")
        content += para_lines(g) + [""]
    if g.p(0.06):
        content += dl("note", None, [], para_lines(g)) + [""]
    return dl(name, None, opts, content[:-1] if content else [])


def cell(g: G, depth: int) -> List[str]:
    k = g.wch([(70, "inline"), (10, "empty"), (20, "blocks")])
    if k == "inline":
        return [inline(g, 2, "cell")]
    if k == "empty":
        return [""]
    return blocks(g, depth + 1, 2)


def table_rows(g: G, depth: int) -> List[str]:
    ncols = g.rng.randint(1, 3)
    nrows = g.rng.randint(1, 3)
    bad = g.wch([(75, ""), (8, "ragged"), (6, "flat"), (5, "para"), (3, "deep"), (3, "enum")])
    if bad:
        g.tags.add("list-table-malformed:" + bad)
    out: List[str] = []
    for r in range(nrows):
        cols = ncols + (1 if bad == "ragged" and r == nrows - 1 else 0)
        if bad == "flat" and r == 0:
            out += ["* " + inline(g, 2, "cell")]
            continue
        for c in range(cols):
            lines = cell(g, depth + 1)
            first = ("* - " if c == 0 else "  - ") + lines[0]
            out += [first.rstrip()] + _ind(lines[1:], 4)
        if bad == "deep" and r == 0:
            out += ["", "    * - nested", ""]
    if bad == "para":
        out = para_lines(g) + [""] + out
    if bad == "enum":
        out = ["1. - a", "   - b"]
    return out


def d_list_table(g: G, depth: int) -> List[str]:
    opts = []
    if g.p(0.5):
        opts.append(("header-rows", g.ch(["1", "0", "5", "x"])))
    if g.p(0.4):
        opts.append(("widths", g.ch(["20 80", "10,20,70", "auto", "1 1 1"])))
    if g.p(0.2):
        opts.append(("stub-columns", "1"))
    if g.p(0.15):
        opts.append(("width", "100%"))
    title = inline(g, 2, "arg") if g.p(0.4) else None
    if title and title.startswith(":"):
        title = None
    rows = table_rows(g, depth) if g.p(0.95) else []
    return dl("list-table", title, opts, rows)


def d_code(g: G, depth: int) -> List[str]:
    name = g.wch([(80, "code-block"), (10, "code"), (10, "sourcecode")])
    opts = []
    if g.p(0.3):
        opts.append(("emphasize-lines", opt_value(g, PT.linenos, not g.p(0.25))))
    if g.p(0.3):
        opts.append(("copyable", opt_value(g, PT.boolean, not g.p(0.1))))
    if g.p(0.2):
        opts.append(("linenos", ""))
    if g.p(0.2):
        opts.append(("caption", inline(g, 2, "arg")))
    if g.p(0.1):
        opts.append(("source", g.ch(URLS)))
    return dl(name, g.ch(LANGS) or None, opts, raw_content(g) if g.p(0.93) else [])


def code_file_opts(g: G) -> List[Tuple[str, str]]:
    opts = []
    if g.p(0.35):
        opts.append(("start-after", g.ch(["start-marker", "no-such-marker", "end-marker"])))
    if g.p(0.35):
        opts.append(("end-before", g.ch(["end-marker", "no-such-marker", "start-marker"])))
    if g.p(0.25):
        opts.append(("language", g.ch(LANGS) or "js"))
    if g.p(0.2):
        opts.append(("dedent", g.ch(["", "2", "x"])))
    if g.p(0.2):
        opts.append(("emphasize-lines", opt_value(g, PT.linenos, not g.p(0.25))))
    if g.p(0.15):
        opts.append(("linenos", ""))
    if g.p(0.15):
        opts.append(("lineno-start", g.ch(["3", "0", "x"])))
    return opts


def d_literalinclude(g: G, depth: int) -> List[str]:
    files = g.project.get("code", []) + ["/code/missing.js", "missing-relative.py"]
    opts = code_file_opts(g)
    if g.p(0.2):
        opts.append(("caption", g.words(1, 3)))
    if g.p(0.2):
        opts.append(("copyable", g.ch(["true", "false"])))
    return dl("literalinclude", g.ch(files) if g.p(0.95) else None, opts)


def d_figure(g: G, depth: int) -> List[str]:
    name = g.wch([(50, "figure"), (45, "image"), (5, "atf-image")])
    files = g.project.get("images", []) + ["/images/missing.png", "missing.svg", "https://example.com/x.png"]
    opts = []
    if name != "atf-image":
        if g.p(0.88):
            opts.append(("alt", g.words(1, 4)))
        if g.p(0.3):
            opts.append(("width", g.ch(["200px", "50%", "wide", "300"])))
        if g.p(0.2):
            opts.append(("figwidth", "400px"))
        if g.p(0.15):
            opts.append(("align", g.ch(["left", "center", "diagonal"])))
        if g.p(0.1):
            opts.append(("lightbox", ""))
        if g.p(0.1):
            opts.append(("border", ""))
    content = para_lines(g) if name == "figure" and g.p(0.3) else []
    return dl(name, g.ch(files) if g.p(0.95) else None, opts, content)


def d_include(g: G, depth: int) -> List[str]:
    incs = g.project.get("includes", []) + ["/includes/missing.rst"]
    target = g.ch(incs)
    opts = []
    if g.p(0.15):
        opts.append(("start-after", g.ch(["start-marker", "no-such-marker"])))
    if g.p(0.15):
        opts.append(("end-before", g.ch(["end-marker", "no-such-marker"])))
    content: List[str] = []
    if g.p(0.45):
        g.tags.add("include-with-replacement")
        for name in g.rng.sample(["rep-inline", "rep-block", "rep-two", "prod", "unused"], g.rng.randint(1, 3)):
            content += d_replacement(g, depth + 1, name) + [""]
        content = content[:-1]
    return dl("include", target if g.p(0.97) else None, opts, content)


def d_replacement(g: G, depth: int, name: Optional[str] = None) -> List[str]:
    name = name or g.ch(["rep-inline", "rep-block", "rep-two", "prod"])
    k = g.wch([(40, "inline"), (18, "two"), (12, "list"), (8, "code"), (5, "empty"), (5, "blocks"), (12, "chain")])
    if k == "chain":
        # a replacement that is nothing but (or mentions) another replacement of the same include: `|other|` alone on a line is a
        # block-level substitution reference, so whether the outer name may be used inline depends on what the inner one holds
        others = [x for x in ["rep-inline", "rep-block", "rep-two", "prod"] if x != name]
        body = ["|" + g.ch(others) + "|"] if g.p(0.7) else [g.words(1, 2) + " |" + g.ch(others) + "| " + g.words(1, 2)]
    elif k == "inline":
        body = [inline(g, 2)]
        if g.p(0.3):
            # one paragraph that is NOT all-inline: an inline hyperlink target is a block-level Target node
            body = [g.words(1, 2) + " _`" + g.words(1, 2) + "` " + g.words(1, 2)]
            g.tags.add("replacement:inline-target")
    elif k == "two":
        body = [inline(g, 2), "", inline(g, 2)]
    elif k == "list":
        body = ["- " + g.words(1, 2), "- " + g.words(1, 2)]
    elif k == "code":
        body = dl("code-block", "sh", [], ["ls -l"])
    elif k == "empty":
        body = []
    else:
        body = blocks(g, depth + 1, 2)
    g.tags.add("replacement:" + k)
    return dl("replacement", name if g.p(0.97) else None, [], body)


def d_toctree(g: G, depth: int) -> List[str]:
    entries = []
    docs = g.docs() + ["/missing-page"]
    for _ in range(g.rng.randint(0, 4)):
        k = g.wch([(40, "slug"), (25, "titled"), (12, "url"), (6, "url-notitle"), (8, "project"), (4, "project-notitle"), (5, "weird")])
        d = g.ch(docs)
        entries.append({
            "slug": d, "titled": f"{g.words(1, 2)} <{d}>", "url": f"{g.words(1, 2)} <https://example.com/x>",
            "url-notitle": "https://example.com/y", "project": f"{g.words(1, 2)} <|other-project|>",
            "project-notitle": "<|other-project|>", "weird": g.ch(["<>", "a <b", "  ", "Title </x> trailing", "|x|"]),
        }[k])
    opts = []
    if g.p(0.4):
        opts.append(("titlesonly", ""))
    if g.p(0.2):
        opts.append(("hidden", ""))
    if g.p(0.2):
        opts.append(("maxdepth", g.ch(["1", "2", "x"])))
    if g.p(0.1):
        opts.append(("caption", g.words(1, 2)))
    return dl("toctree", None, opts, entries)


def d_io_code(g: G, depth: int) -> List[str]:
    def part(name: str) -> List[str]:
        opts = []
        if g.p(0.7):
            opts.append(("language", g.ch(LANGS) or "sh"))
        if g.p(0.2):
            opts.append(("linenos", ""))
        if g.p(0.2):
            opts.append(("emphasize-lines", opt_value(g, PT.linenos, not g.p(0.25))))
        if name == "output" and g.p(0.3):
            opts.append(("visible", g.ch(["true", "false", "maybe"])))
        if g.p(0.25):
            files = g.project.get("code", []) + ["/code/missing.js"]
            return dl(name, g.ch(files), opts + code_file_opts(g)[:2])
        return dl(name, None, opts, raw_content(g) if g.p(0.9) else [])

    shape = g.wch([(55, "io"), (8, "i"), (8, "o"), (6, "ioo"), (6, "iio"), (6, "oi"), (6, "foreign"), (5, "para")])
    content: List[str] = []
    seq = {"io": ["input", "output"], "i": ["input"], "o": ["output"], "ioo": ["input", "output", "output"],
           "iio": ["input", "input", "output"], "oi": ["output", "input"], "foreign": ["input", "note", "output"],
           "para": ["input", "para", "output"]}[shape]
    for s in seq:
        if s == "note":
            content += dl("note", None, [], ["x"]) + [""]
        elif s == "para":
            content += para_lines(g) + [""]
        else:
            content += part(s) + [""]
    opts = []
    if g.p(0.3):
        opts.append(("copyable", g.ch(["true", "false"])))
    if g.p(0.2):
        opts.append(("caption", g.words(1, 3)))
    if g.p(0.1):
        opts.append(("source", g.ch(URLS)))
    return dl("io-code-block", "python" if g.p(0.06) else None, opts, content[:-1])


def d_procedure(g: G, depth: int) -> List[str]:
    content: List[str] = []
    for _ in range(g.rng.randint(0, 3)):
        title = inline(g, 3, "arg") if g.p(0.85) else None
        if title and title.startswith(":"):
            title = "x " + title
        content += dl("step", title, [], small_body(g, depth + 1) if g.p(0.9) else []) + [""]
    if g.p(0.1):
        content += para_lines(g) + [""]
    opts = []
    if g.p(0.4):
        opts.append(("style", g.ch(["normal", "connected", "bogus"])))
    if g.p(0.2):
        opts.append(("title", g.words(1, 3)))
    return dl("procedure", None, opts, content[:-1] if content else [])


def d_cards(g: G, depth: int) -> List[str]:
    content: List[str] = []
    for _ in range(g.rng.randint(0, 3)):
        opts = []
        if g.p(0.7):
            opts.append(("headline", g.words(1, 3)))
        if g.p(0.6):
            opts.append(("url", g.ch(URLS + ["/tutorial", "/missing-page", "//double//slash"])))
        if g.p(0.4):
            opts.append(("icon", g.ch(["general_features_cloud", "/images/missing.svg"] + g.project.get("images", []))))
        if g.p(0.15):
            opts.append(("icon-dark", "/images/missing-dark.svg"))
        if g.p(0.3):
            opts.append(("cta", g.words(1, 2)))
        if g.p(0.2):
            opts.append(("tag", "new"))
        content += dl("card", None, opts, para_lines(g) if g.p(0.7) else []) + [""]
    opts = []
    if g.p(0.6):
        opts.append(("columns", g.ch(["2", "3", "x"])))
    if g.p(0.4):
        opts.append(("style", g.ch(g.t["enum"].get("card_style", ["default"]))))
    if g.p(0.2):
        opts.append(("layout", "carousel"))
    if g.p(0.15):
        opts.append(("type", "drivers"))
    return dl("card-group", None, opts, content[:-1] if content else [])


def d_admonition(g: G, depth: int) -> List[str]:
    name = g.ch(["note", "warning", "tip", "important", "see", "seealso", "example", "admonition", "caution", "danger"])
    title = inline(g, 2, "arg") if g.p(0.35) else None
    if title and title.startswith(":"):
        title = None
    opts = [("class", "hidden")] if g.p(0.1) else []
    return dl(name, title, opts, small_body(g, depth) if g.p(0.92) else [])


def d_glossary(g: G, depth: int) -> List[str]:
    content: List[str] = []
    for _ in range(g.rng.randint(0, 3)):
        content += [inline(g, 2, "term")] + _ind(para_lines(g)) + [""]
    if g.p(0.15):
        g.tags.add("glossary-malformed")
        content += para_lines(g) + [""]
    return dl("glossary", None, [("sorted", "")] if g.p(0.5) else [], content[:-1] if content else [])


def d_version(g: G, depth: int) -> List[str]:
    name = g.ch(["versionadded", "versionchanged", "deprecated"])
    arg = g.ch(["4.2", "2.0.1", "|ver|", "4.4 and later", None if name == "deprecated" else "1.0"])
    out = [f".. {name}::" + (f" {arg}" if arg else "")]
    if g.p(0.4):
        out.append("   " + inline(g, 3))
    if g.p(0.4):
        out += [""] + _ind(small_body(g, depth))
    return out


def d_composable(g: G, depth: int) -> List[str]:
    comps = g.t["composables"]
    k = g.rng.randint(1, min(3, len(comps)))
    chosen = comps[:k] if g.p(0.7) else g.rng.sample(comps, k)
    ids = [c[0] if g.p(0.93) else "bogus-composable" for c in chosen]
    defaults = [g.ch(c[1]) if g.p(0.9) else "bogus-default" for c in chosen]
    mode = g.wch([(70, "ok"), (12, "short-defaults"), (8, "no-defaults"), (5, "dup"), (5, "empty")])
    opts = [("options", ", ".join(ids))]
    if mode == "ok":
        opts.append(("defaults", ", ".join(defaults)))
    elif mode == "short-defaults":
        g.tags.add("composable-short-defaults")
        opts.append(("defaults", ", ".join(defaults[:-1]) or "x"))
    elif mode == "dup":
        opts = [("options", ", ".join(ids + ids[:1])), ("defaults", ", ".join(defaults + defaults[:1]))]
    elif mode == "empty":
        opts = [("options", g.ch(["", ","]))]
    content: List[str] = []
    for i in range(g.rng.randint(0, 3)):
        sel = [g.ch(c[1] + ["None"]) for c in chosen] if i else defaults
        if g.p(0.1):
            sel = sel + ["extra"]
        so = [("selections", ", ".join(sel))] if g.p(0.93) else []
        content += dl("selected-content", None, so, small_body(g, depth + 1)) + [""]
    if g.p(0.1):
        content += para_lines(g) + [""]
    return dl("composable-tutorial", None, opts, content[:-1] if content else [])


def d_method_selector(g: G, depth: int) -> List[str]:
    ids = g.t["methods"]
    content: List[str] = []
    for i in range(g.rng.randint(0, 4)):
        oid = g.ch(ids) if g.p(0.9) else "bogus-method"
        body: List[str] = []
        desc = dl("method-description", None, [], para_lines(g))
        if g.p(0.6):
            body += desc + [""]
        body += small_body(g, depth + 2)
        if g.p(0.15):
            body += [""] + desc
        content += dl("method-option", None, [("id", oid)] if g.p(0.93) else [], body) + [""]
    if g.p(0.1):
        content += para_lines(g) + [""]
    return dl("method-selector", None, [], content[:-1] if content else [])


def d_wayfinding(g: G, depth: int) -> List[str]:
    ids = g.t["wayfinding"]
    content: List[str] = []
    if g.p(0.8):
        content += dl("wayfinding-description", None, [], para_lines(g)) + [""]
    for i in range(g.rng.randint(0, 3)):
        oid = g.ch(ids) if g.p(0.9) else "bogus-lang"
        content += dl("wayfinding-option", g.ch(URLS) if g.p(0.93) else None, [("id", oid)] if g.p(0.93) else []) + [""]
    if g.p(0.1):
        content += para_lines(g) + [""]
    return dl("wayfinding", g.words(1, 3) if g.p(0.3) else None, [], content[:-1] if content else [])


def d_facet(g: G, depth: int) -> List[str]:
    k = g.wch([(40, "genre"), (40, "nested"), (20, "bad")])
    if k == "genre":
        return dl("facet", None, [("name", "genre"), ("values", g.ch(["tutorial", "reference", "tutorial, reference", "bogus"]))])
    if k == "nested":
        inner = dl("facet", None, [("name", "sub_product"), ("values", g.ch(["charts", "search, triggers", "bogus"]))])
        return dl("facet", None, [("name", "target_product"), ("values", "atlas")], inner)
    return dl("facet", None, [("name", g.ch(["bogus", "genre"]))] if g.p(0.5) else [("values", "x")], para_lines(g) if g.p(0.3) else [])


def d_meta(g: G, depth: int) -> List[str]:
    opts = []
    if g.p(0.7):
        opts.append(("keywords", "a, b, " + g.words(1, 2)))
    if g.p(0.7):
        opts.append(("description", g.words(2, 6)))
    if g.p(0.2):
        opts.append(("robots", "noindex, nosnippet"))
    if g.p(0.15):
        opts.append(("canonical", g.ch(URLS)))
    return dl("meta", None, opts)


def d_collapsible(g: G, depth: int) -> List[str]:
    opts = []
    if g.p(0.9):
        opts.append(("heading", g.ch([g.words(1, 3), "*x* |prod|", "dup heading"])))
    if g.p(0.4):
        opts.append(("sub_heading", g.words(1, 3)))
    if g.p(0.3):
        opts.append(("expanded", g.ch(["true", "false", "x"])))
    body = small_body(g, depth) if g.p(0.85) else []
    if body and g.p(0.3):
        body = [g.words(1, 2), "~~~~~~~~~~~~~~~~~~~~~~~~", ""] + body
    return dl("collapsible", None, opts, body)


def d_rstobject(g: G, depth: int) -> List[str]:
    key = g.ch(["mongodb:method", "mongodb:dbcommand", "std:option", "mongodb:binary", "mongodb:setting", "py:meth", "mongodb:readconcern"]) if g.p(0.6) else g.ch(g.t["obj_keys"])
    return generic_directive(g, key, depth)


def d_guides(g: G, depth: int) -> List[str]:
    k = g.wch([(40, "chapters"), (20, "time"), (20, "short"), (20, "next")])
    if k == "time":
        return dl("time", g.ch(["15", "0", "x", None]))
    if k == "short":
        return dl("short-description", None, [], para_lines(g))
    if k == "next":
        return dl("guide-next", g.words(1, 2) if g.p(0.5) else None, [], para_lines(g))
    content: List[str] = []
    for _ in range(g.rng.randint(0, 2)):
        opts = [("description", g.words(1, 4))] if g.p(0.9) else []
        if g.p(0.4):
            opts.append(("image", g.ch(["/images/missing.png"] + g.project.get("images", []))))
        if g.p(0.2):
            opts.append(("icon", "/images/missing.svg"))
        inner: List[str] = []
        for _ in range(g.rng.randint(0, 2)):
            inner += dl("guide", g.ch(g.docs() + ["/missing.txt"]) if g.p(0.9) else None) + [""]
        if g.p(0.15):
            inner += dl("note", None, [], ["x"]) + [""]
        content += dl("chapter", g.words(1, 2) if g.p(0.9) else None, opts, inner[:-1] if inner else []) + [""]
    return dl("chapters", None, [], content[:-1] if content else [])


def d_ia(g: G, depth: int) -> List[str]:
    content: List[str] = []
    for _ in range(g.rng.randint(0, 3)):
        k = g.wch([(50, "slug"), (25, "url"), (15, "project"), (10, "bad")])
        if k == "slug":
            e = dl("entry", None, [("url", g.ch(g.docs() + ["/missing-page"]))] + ([("id", "e1")] if g.p(0.3) else []))
        elif k == "url":
            e = dl("entry", g.words(1, 2) if g.p(0.8) else None, [("url", g.ch(URLS))])
        elif k == "project":
            e = dl("entry", g.words(1, 2) if g.p(0.8) else None, [("project-name", "other")] + ([("primary", "")] if g.p(0.5) else []) + ([("url", g.ch(URLS))] if g.p(0.5) else []))
        else:
            e = dl("entry", None, [])
        content += e + [""]
    if g.p(0.1):
        content += para_lines(g) + [""]
    return dl("ia", None, [], content[:-1] if content else [])


def d_quiz(g: G, depth: int) -> List[str]:
    content = para_lines(g) + [""]
    for _ in range(g.rng.randint(0, 3)):
        content += dl("quizchoice", g.words(1, 3) if g.p(0.9) else None, [("is-true", "")] if g.p(0.4) else [], para_lines(g)) + [""]
    opts = [("quiz-id", "q1")] if g.p(0.9) else []
    if g.p(0.5):
        opts.append(("quiz-date", g.ch(["2021-06-21", "someday"])))
    return dl("quiz", g.words(1, 4) + "?" if g.p(0.8) else None, opts, content[:-1])


def d_openapi(g: G, depth: int) -> List[str]:
    if g.p(0.2):
        return dl("openapi-changelog", g.ch(["cloud", "other", None]), [("api-version", g.ch(["2.0", "9.9"]))] if g.p(0.6) else [])
    arg = g.ch(["/openapi/missing.yaml", "cloud", "cloud", "https://example.com/spec.yaml", None] + g.project.get("openapi", []))
    opts = []
    if g.p(0.35):
        opts.append(("api-version", g.ch(["2.0", "1.0"])))
    if g.p(0.2):
        opts.append(("uses-realm", ""))
    if g.p(0.15):
        opts.append(("preview", ""))
    return dl("openapi", arg, opts)


def d_misc(g: G, depth: int) -> List[str]:
    k = g.ch(["only", "cond", "default-domain", "contents", "banner", "sharedinclude", "todo", "tabs-selector", "multi-page-tutorial", "hlist",
              "video", "og", "twitter", "pubdate", "updated-date", "unknown", "unknown-domain", "badopt", "rubric", "kicker", "button"])
    if k == "only":
        return dl("only", g.ch(["html", "html and not man", "(a or b)", "", "|x|"]) or None, [], small_body(g, depth))
    if k == "cond":
        return dl("cond", g.ch(["onprem", "cloud", "not onprem", ""]) or None, [], small_body(g, depth))
    if k == "default-domain":
        return dl("default-domain", g.ch(["mongodb", "py", "std", "nosuch"]))
    if k == "contents":
        opts = [("local", "")] if g.p(0.8) else []
        if g.p(0.6):
            opts.append(("backlinks", g.ch(["none", "top", "entry", "bogus"])))
        if g.p(0.6):
            opts.append(("depth", g.ch(["1", "2", "x"])))
        if g.p(0.5):
            opts.append(("class", "singlecol"))
        return dl("contents", g.ch(["On this page", None]), opts)
    if k == "banner":
        return dl("banner", None, [("variant", g.ch(["info", "warning", "danger", "bogus"]))] if g.p(0.8) else [], small_body(g, depth))
    if k == "sharedinclude":
        return dl("sharedinclude", g.ch(["dbtools/x.rst", None]))
    if k == "todo":
        return dl("todo", g.words(1, 3) if g.p(0.6) else None, [], para_lines(g) if g.p(0.5) else [])
    if k == "tabs-selector":
        return dl(g.ch(["tabs-selector", "tabs-pillstrip"]), g.ch(["drivers", "languages", "platforms", "bogus", None]), [("default-tabid", g.ch(["shell", "python", "bogus"]))] if g.p(0.4) else [])
    if k == "multi-page-tutorial":
        return dl("multi-page-tutorial", None, ([("time-required", g.ch(["5", "x"]))] if g.p(0.9) else []) + ([("show-next-top", "")] if g.p(0.4) else []))
    if k == "hlist":
        return dl("hlist", None, [("columns", g.ch(["2", "x"]))] if g.p(0.7) else [], b_bullet(g, depth + 1) if g.p(0.9) else para_lines(g))
    if k == "video":
        opts = [(o, v) for o, v in [("title", g.words(1, 3)), ("description", g.words(2, 5)), ("thumbnail-url", "https://example.com/t.png"), ("upload-date", g.ch(["2023-11-08", "bad"]))] if g.p(0.6)]
        return dl("video", g.ch(["https://www.youtube.com/embed/XrJG994YxD8", "not a url", None]), opts)
    if k in ("og", "twitter"):
        spec = g.t["dirs"][k]
        opts = gen_options(g, spec, 0.6)
        return dl(k, None, opts, para_lines(g) if g.p(0.2) else [])
    if k in ("pubdate", "updated-date"):
        return dl(k, g.ch(["2024-01-15", "2024-1-5", "January 15", None]))
    if k == "unknown":
        g.tags.add("directive-unknown")
        return dl(g.ch(["nosuchdirective", "Note", "code block", "raw", "csv-table", "math", "dismissible-skills-card"]), g.words(1, 2) if g.p(0.5) else None, [("opt", "1")] if g.p(0.3) else [], para_lines(g) if g.p(0.7) else [])
    if k == "unknown-domain":
        g.tags.add("directive-unknown-domain")
        return dl(g.ch(["nodomain:thing", "py:nosuch", "mongodb:nosuch", "std:note", ":x"]), g.words(1, 2), [], para_lines(g))
    if k == "badopt":
        g.tags.add("directive-bad-option-syntax")
        return [".. note:: " + g.words(1, 2)] + g.ch([["   :class hidden", "", "   text"], ["   class: x", "", "   text"], ["   :class:hidden", "   text"], ["   ::", "", "   text"], ["   :class: a", "     continued", "   :class: b", "", "   text"]])
    if k == "rubric":
        return dl("rubric", inline(g, 2, "arg"))
    if k == "kicker":
        return dl("kicker", g.words(1, 3))
    return dl("button", g.words(1, 2), [("uri", g.ch(URLS + ["/tutorial"]))] if g.p(0.9) else [], para_lines(g) if g.p(0.2) else [])


SPECIAL = [
    (8, d_tabs), (7, d_list_table), (7, d_code), (4, d_literalinclude), (5, d_figure), (5, d_include), (2, d_replacement),
    (4, d_toctree), (5, d_io_code), (5, d_procedure), (3, d_cards), (8, d_admonition), (3, d_glossary), (4, d_version),
    (3, d_composable), (3, d_method_selector), (3, d_wayfinding), (3, d_facet), (2, d_meta), (3, d_collapsible),
    (6, d_rstobject), (2, d_guides), (2, d_ia), (2, d_quiz), (3, d_openapi), (14, d_misc),
]


def b_directive(g: G, depth: int) -> List[str]:
    g.n_dirs += 1
    if g.p(0.3):
        keys = g.t["dir_keys"] if g.p(0.8) else g.t["obj_keys"]
        return generic_directive(g, g.ch(keys), depth)
    return g.wch(SPECIAL)(g, depth)


# --------------------------------------------------------------------------------------
# block constructs
# --------------------------------------------------------------------------------------

ADORN = ["=", "-", "~", "^", '"', "+"]


def b_paragraph(g: G, depth: int) -> List[str]:
    return para_lines(g)


def b_heading(g: G, depth: int) -> List[str]:
    if depth > 0:
        lvl = g.ch([2, 3])
    else:
        if g.level < 0:
            lvl = 0
        else:
            lvl = g.ch([g.level + 1, g.level + 1, g.level, max(0, g.level - 1), 0])
            if g.p(0.04):
                g.tags.add("heading-level-skip")
                lvl = g.level + 2
        lvl = min(lvl, len(ADORN) - 1)
        g.level = lvl
    title = inline(g, 3, "heading")
    w = _width(title)
    under = ADORN[lvl] * w
    if g.p(0.04):
        g.tags.add("heading-short-underline")
        under = ADORN[lvl] * max(1, w - 3)
    if lvl == 0 and g.p(0.2):
        return [under, title, under]
    return [title, under]


def list_item_body(g: G, depth: int) -> List[str]:
    k = g.wch([(70, "inline"), (20, "two"), (10, "blocks")])
    if k == "inline" or depth >= 3:
        return [inline(g, 3, "cell")]
    if k == "two":
        return [inline(g, 3, "cell"), "", inline(g, 2, "cell")]
    return [inline(g, 2, "cell"), ""] + blocks(g, depth + 1, 1)


def b_bullet(g: G, depth: int) -> List[str]:
    mark = g.ch(["-", "*", "+"])
    out: List[str] = []
    loose = g.p(0.3)
    for _ in range(g.rng.randint(1, 3)):
        body = list_item_body(g, depth)
        out += [f"{mark} {body[0]}".rstrip()] + _ind(body[1:], 2)
        if loose:
            out.append("")
    if g.p(0.05):
        out.append(mark)  # empty item
    while out and not out[-1]:
        out.pop()
    return out


def b_enum(g: G, depth: int) -> List[str]:
    style = g.wch([(30, "arabic"), (12, "auto"), (10, "loweralpha"), (8, "upperalpha"), (8, "lowerroman"), (8, "upperroman"),
                   (8, "odd-start"), (5, "huge"), (5, "paren"), (3, "rparen"), (3, "mixed")])
    n = g.rng.randint(1, 3)
    if style == "arabic":
        marks = [f"{i + 1}." for i in range(n)]
    elif style == "auto":
        marks = ["#."] * n
    elif style == "loweralpha":
        marks = [f"{'abc'[i]}." for i in range(n)]
    elif style == "upperalpha":
        marks = [f"{'ABC'[i]}." for i in range(n)]
    elif style == "lowerroman":
        marks = ["i.", "ii.", "iii."][:n]
    elif style == "upperroman":
        start = g.ch([["I.", "II.", "III."], ["IV.", "V.", "VI."], ["MCMXC.", "MCMXCI.", "MCMXCII."], ["VII.", "VIII.", "IX."]])
        marks = start[:n]
    elif style == "odd-start":
        s = g.ch([0, 5, 17, 100])
        marks = [f"{s + i}." for i in range(n)]
    elif style == "huge":
        g.tags.add("enum-huge-start")
        s = g.ch([99999999999999999999, 2 ** 63, 2 ** 31, 4294967296])
        marks = [f"{s + i}." for i in range(n)]
    elif style == "paren":
        marks = [f"({i + 1})" for i in range(n)]
    elif style == "rparen":
        marks = [f"{'abc'[i]})" for i in range(n)]
    else:
        marks = ["1.", "3.", "b."][:n]
    out: List[str] = []
    for m in marks:
        body = list_item_body(g, depth)
        out += [f"{m} {body[0]}".rstrip()] + _ind(body[1:], len(m) + 1)
    return out


def b_nested_list(g: G, depth: int) -> List[str]:
    inner = b_enum(g, depth + 1) if g.p(0.4) else b_bullet(g, depth + 1)
    return ["- " + inline(g, 2, "cell"), ""] + _ind(inner, 2) + ["", "- " + inline(g, 2, "cell")]


def b_deflist(g: G, depth: int) -> List[str]:
    out: List[str] = []
    for _ in range(g.rng.randint(1, 3)):
        term = inline(g, 2, "term")
        if g.p(0.3):
            term += " : " + g.ch(["classifier", "*c*", "a : b"])
        body = para_lines(g)
        if depth < 2 and g.p(0.2):
            g.tags.add("deflist-nested")
            body += ["", g.words(1, 2)] + _ind(para_lines(g))
        elif depth < 2 and g.p(0.15):
            body += [""] + blocks(g, depth + 1, 1)
        out += [term] + _ind(body)
        if g.p(0.5):
            out.append("")
    while out and not out[-1]:
        out.pop()
    return out


def b_fieldlist(g: G, depth: int) -> List[str]:
    out = []
    for _ in range(g.rng.randint(1, 3)):
        name = g.ch(["field", "returns", "param x", "type", "orphan", "Author", "a\\:b"])
        k = g.wch([(60, "value"), (20, "empty"), (20, "multi")])
        if k == "value":
            out.append(f":{name}: {inline(g, 2, 'cell')}")
        elif k == "empty":
            out.append(f":{name}:")
        else:
            out += [f":{name}: {inline(g, 2, 'cell')}", "   continued " + g.words(1, 2), "", "   - item"]
    return out


def b_optionlist(g: G, depth: int) -> List[str]:
    g.tags.add("option-list")
    return g.ch([["-a  option a", "--long=FILE  long option"], ["-v            verbose"], ["/V  dos option"]])


def b_lineblock(g: G, depth: int) -> List[str]:
    out = []
    for _ in range(g.rng.randint(1, 4)):
        k = g.wch([(60, "line"), (20, "indented"), (10, "empty"), (10, "cont")])
        if k == "line":
            out.append("| " + inline(g, 2, "cell"))
        elif k == "indented":
            out.append("|    " + inline(g, 2, "cell"))
        elif k == "empty":
            out.append("|")
        else:
            out += ["| " + g.words(1, 3), "  continued " + g.words(1, 2)]
    return out


def b_literal(g: G, depth: int) -> List[str]:
    g.tags.add("literal-block")
    k = g.wch([(50, "para"), (30, "alone"), (20, "quoted")])
    if k == "para":
        return [g.words(1, 3) + "::", ""] + _ind(raw_content(g))
    if k == "alone":
        return ["::", ""] + _ind(raw_content(g))
    return [g.words(1, 2) + "::", "", "> quoted literal", "> second"]


def b_doctest(g: G, depth: int) -> List[str]:
    g.tags.add("doctest-block")
    return [">>> print(1)", "1"]


def b_quote(g: G, depth: int) -> List[str]:
    g.tags.add("block-quote")
    out = _ind(para_lines(g))
    if g.p(0.4):
        out += ["", "   -- " + g.words(1, 2)]
    if g.p(0.3) and depth < 2:
        out += [""] + _ind(blocks(g, depth + 1, 1), 6)
    return out


def b_grid(g: G, depth: int) -> List[str]:
    g.tags.add("grid-table")
    k = g.wch([(50, "plain"), (25, "header"), (25, "span")])
    if k == "plain":
        return ["+-----+-----+", "| a   | *b* |", "+-----+-----+", "| c   | d   |", "+-----+-----+"]
    if k == "header":
        return ["+-----+-----+", "| H1  | H2  |", "+=====+=====+", "| c   | - x |", "|     | - y |", "+-----+-----+"]
    return ["+-----+-----+", "| spanning  |", "+-----+-----+", "| c   | d   |", "+-----+-----+"]


def b_simple(g: G, depth: int) -> List[str]:
    g.tags.add("simple-table")
    if g.p(0.5):
        return ["=====  =====", "A      B", "=====  =====", "1      2", "=====  ====="]
    return ["=====  =====", "1      " + g.ch(["2", "*x*", "|prod|"]), "=====  ====="]


def b_transition(g: G, depth: int) -> List[str]:
    return [g.ch(["----", "========", "~~~~~~~~~~", "****"])]


def b_comment(g: G, depth: int) -> List[str]:
    k = g.wch([(40, "inline"), (30, "block"), (15, "empty"), (15, "tricky")])
    if k == "inline":
        return [".. " + g.words(1, 4)]
    if k == "block":
        return ["..", "   " + g.words(1, 4), "   " + g.ch([".. note:: not a directive", "|x| *y* `z`", "more"])]
    if k == "empty":
        return [".."]
    return [g.ch([".. [not a footnote", ".. _not a target", ".. |not a subst", ".. note: single colon", ".. name:: :bad"])]


def b_label(g: G, depth: int) -> List[str]:
    name = g.ch(LABELS)
    g.labels.append(name)
    out = [f".. _{name}:"]
    if g.p(0.15):
        name2 = g.ch(LABELS)
        g.labels.append(name2)
        out.append(f".. _{name2}:")
    if g.p(0.1):
        out = [f".. _`{name}: with colon`:"]
    return out


def b_target(g: G, depth: int) -> List[str]:
    k = g.wch([(60, "url"), (15, "indirect"), (10, "anon"), (8, "multi"), (7, "empty-url")])
    name = g.ch(["Example Site", "docs", "MongoDB Manual", "other"])
    if k == "url":
        return [f".. _{name}: {g.ch(URLS)}"]
    if k == "indirect":
        return [f".. _{name}: docs_"]
    if k == "anon" and (g.project or not g.p(0.5)) and not g.p(0.15):
        k = "url"
        return [f".. _{name}: {g.ch(URLS)}"]
    if k == "anon":
        g.tags.add("anonymous-target")
        return [g.ch(["__ https://example.com/anon", ".. __: https://example.com/anon"])]
    if k == "multi":
        return [f".. _{name}: https://example.com/", "   long/path"]
    return [f".. _{name}: `"]


def subst_def(g: G, name: str) -> List[str]:
    if name == "img":
        out = [f".. |{name}| image:: {g.ch(['/images/missing.png'] + g.project.get('images', []))}"]
        if g.p(0.5):
            out.append("   :alt: " + g.words(1, 2))
        return out
    if name == "dash":
        k = g.wch([(60, "ok"), (15, "multi"), (10, "bad"), (8, "big"), (4, "nul"), (3, "surrogate")])
        if k == "ok":
            return [f".. |{name}| unicode:: U+2014"]
        if k == "multi":
            return [f".. |{name}| unicode:: 0xA9 U+02014 &#x2014; x .. comment", "   :trim:"]
        if k == "bad":
            return [f".. |{name}| unicode:: U+ZZZZ"]
        if k == "big":
            return [f".. |{name}| unicode:: U+110000"]
        if k == "nul":
            g.tags.add("unicode-directive-nul")
            return [f".. |{name}| unicode:: U+0000"]
        g.tags.add("unicode-directive-surrogate")
        return [f".. |{name}| unicode:: U+D800"]
    if name == "loop-a":
        g.tags.add("subst-circular")
        return [".. |loop-a| replace:: see |loop-b|"]
    if name == "loop-b":
        g.tags.add("subst-circular")
        return [".. |loop-b| replace:: see |loop-a|"]
    if name == "selfref":
        g.tags.add("subst-circular")
        return [".. |selfref| replace:: me |selfref|"]
    if name == "emph":
        return [f".. |{name}| replace:: *{g.words(1, 2)}*"]
    k = g.wch([(70, "inline"), (10, "block"), (8, "empty"), (6, "nested"), (6, "other-directive")])
    if k == "inline":
        return [f".. |{name}| replace:: {inline(g, 3, 'arg')}"]
    if k == "block":
        g.tags.add("subst-def-block-content")
        return [f".. |{name}| replace:: {g.words(1, 2)}", "", "   second paragraph", "", "   - item"]
    if k == "empty":
        return [f".. |{name}| replace::"]
    if k == "nested":
        g.subs.setdefault("ver", "after")
        return [f".. |{name}| replace:: {g.words(1, 2)} |ver| {role_text(g)}"]
    return [f".. |{name}| {g.ch(['note', 'date', 'code-block', 'include'])}:: {g.words(1, 2)}"]


def b_subst_def(g: G, depth: int) -> List[str]:
    name = g.ch(SUB_NAMES[:7])
    g.subs[name] = "inline-defined"
    g.tags.add("subst-def-inline-position")
    return subst_def(g, name)


def b_subst_alone(g: G, depth: int) -> List[str]:
    g.tags.add("subst-alone-in-paragraph")
    return [sub_ref(g)]


def footnote_body(g: G, label: str) -> List[str]:
    k = g.wch([(60, "one"), (25, "multi"), (15, "empty")])
    if k == "one":
        return [f".. [{label}] {inline(g, 3, 'cell')}"]
    if k == "multi":
        return [f".. [{label}] {inline(g, 2, 'cell')}", "", "   " + g.words(1, 3), "", "   - item"]
    return [f".. [{label}]"]


def b_footnote_def(g: G, depth: int) -> List[str]:
    label = g.ch(["#", "#note1", "1", "*", "#fn-a", "3"])
    return footnote_body(g, label)


BLOCKS = [
    (22, b_paragraph), (24, b_directive), (6, b_bullet), (6, b_enum), (2.5, b_nested_list), (5, b_deflist), (2.5, b_fieldlist),
    (0.25, b_optionlist), (3, b_lineblock), (2, b_literal), (0.25, b_doctest), (2, b_quote), (1.5, b_grid), (1.5, b_simple),
    (2, b_transition), (3, b_comment), (4, b_label), (2.5, b_target), (3, b_subst_def), (2.5, b_subst_alone), (1.5, b_footnote_def),
    (9, b_heading),
]
LEAF_BLOCKS = [(50, b_paragraph), (10, b_bullet), (8, b_enum), (8, b_deflist), (5, b_lineblock), (5, b_comment), (4, b_label), (4, b_subst_alone), (3, b_fieldlist), (3, b_literal)]


def blocks(g: G, depth: int, count: int) -> List[str]:
    out: List[str] = []
    for _ in range(count):
        if depth >= 3 or g.n_dirs > 12:
            fn = g.wch(LEAF_BLOCKS)
        else:
            fn = g.wch(BLOCKS)
            if depth > 0 and fn is b_heading and not g.p(0.25):
                fn = b_paragraph
            if depth > 0 and fn is b_transition:
                fn = b_paragraph
        if fn in (b_optionlist, b_doctest) and g.project and not g.p(0.15):
            fn = b_paragraph
        lines = fn(g, depth)
        if out:
            out.append("")
        out += lines
    return out


def doc_tail(g: G) -> Tuple[List[str], List[str]]:
    """definitions owed by the inline markup: (before-body lines, after-body lines)"""
    head: List[str] = []
    tail: List[str] = []
    for name in sorted(g.subs):
        mode = g.subs[name]
        if mode == "before":
            g.tags.add("subst-before-use")
            head += subst_def(g, name)
        elif mode == "after":
            g.tags.add("subst-after-use")
            tail += subst_def(g, name)
        elif mode == "never":
            g.tags.add("subst-never-defined")
        elif mode == "project":
            g.tags.add("subst-from-project")
    fns: List[str] = []
    for i in range(g.fn_auto):
        if not g.p(0.15):
            fns += footnote_body(g, "#")
    for name in g.fn_names:
        if not g.p(0.15):
            fns += footnote_body(g, "#" + name)
    for num in g.fn_nums:
        if not g.p(0.15):
            fns += footnote_body(g, num)
    for i in range(g.fn_sym):
        if not g.p(0.15):
            fns += footnote_body(g, "*")
    for c in sorted(set(g.cites)):
        fns += [f".. [{c}] A citation."]
    if fns:
        g.tags.add("footnotes")
        tail += [""] + fns
    tg: List[str] = []
    for name in g.targets:
        if g.p(0.8):
            tg.append(f".. _{name}: {g.ch(URLS)}")
            if g.p(0.06):
                g.tags.add("duplicate-hyperlink-target")
                tg.append(f".. _{name}: {g.ch(URLS)}")
    if tg:
        tail += [""] + tg
    return head, tail


def gen_document(g: G, with_title: bool = True, min_lines: int = 4) -> str:
    target = g.rng.randint(min_lines, max(min_lines, g.budget))
    top: List[str] = []
    if g.p(0.15):
        g.tags.add("docinfo-field-list")
        top += g.ch([[":orphan:"], [":template: landing", ":hidefeedback: header"], [":noprevnext:", ":tocdepth: 2"], [":orphan: |prod|"]]) + [""]
    body: List[str] = []
    if with_title and g.p(0.8):
        if g.p(0.4):
            body += b_label(g, 0) + [""]
        body += b_heading(g, 0) + [""]
    guard = 0
    while len(body) < target and guard < 20:
        guard += 1
        body += blocks(g, 0, 1) + [""]
    head, tail = doc_tail(g)
    lines = top + (head + [""] if head else []) + body + tail
    while lines and not lines[-1]:
        lines.pop()
    text = "\n".join(lines) + "\n"
    if g.p(0.05):
        text = text.rstrip("\n")
    return text


# --------------------------------------------------------------------------------------
# malformed stream
# --------------------------------------------------------------------------------------


def _rand_char(rng) -> str:
    kind = rng.randrange(8)
    if kind == 0:
        cp = rng.choice([0x0301, 0x0308, 0x20DD, 0x0323, 0x200D, 0x200B, 0xFE0F, 0x202E])  # combining / invisible
    elif kind == 1:
        cp = rng.randrange(0x4E00, 0x9FFF)  # wide
    elif kind == 2:
        cp = rng.randrange(0x1F300, 0x1F6FF)  # astral
    elif kind == 3:
        cp = rng.choice([0x0B, 0x0C, 0x1C, 0x1D, 0x1E, 0x85, 0x2028, 0x2029, 0x0D, 0x09, 0xA0, 0x7F, 0x1B])  # exotic whitespace / controls
    elif kind == 4:
        cp = rng.randrange(0x80, 0x800)
    elif kind == 5:
        cp = rng.choice([0xFFFD, 0xFFFE, 0xFFFF, 0xFEFF, 0x10FFFF, 0xE000, 0xFB01, 0x130, 0x1C5])
    else:
        cp = rng.randrange(1, 0x110000)
    if cp == 0 or 0xD800 <= cp <= 0xDFFF:
        cp = 0x2603
    return chr(cp)


MUTATIONS = ["delete-line", "dup-line", "indent", "truncate", "unbalanced", "unknown-directive", "bad-option", "short-underline",
             "unterminated-table", "tab", "unichar", "swap-lines", "join-lines", "merge-conflict", "constant"]


def mutate(rng, text: str) -> Tuple[str, List[str]]:
    lines = text.split("\n")
    used = []
    for _ in range(rng.choice([1, 1, 2, 3])):
        m = rng.choice(MUTATIONS)
        used.append(m)
        if not lines:
            lines = [""]
        i = rng.randrange(len(lines))
        if m == "delete-line":
            del lines[i]
        elif m == "dup-line":
            lines.insert(i, lines[i])
        elif m == "indent":
            d = rng.choice([-3, -2, -1, 1, 2, 3])
            l = lines[i]
            lines[i] = (" " * d + l) if d > 0 else l[min(-d, len(l) - len(l.lstrip(" "))):]
        elif m == "truncate":
            l = lines[i]
            lines[i] = l[: rng.randrange(len(l) + 1)]
            if rng.random() < 0.3:
                del lines[i + 1:]
        elif m == "unbalanced":
            l = lines[i]
            pos = rng.randrange(len(l) + 1)
            lines[i] = l[:pos] + rng.choice(["*", "**", "`", "``", "|", "_", "`_", ":`", "[#", "]_", "<", ">`_", "\\"]) + l[pos:]
        elif m == "unknown-directive":
            idx = [k for k, l in enumerate(lines) if l.lstrip().startswith(".. ") and "::" in l]
            if idx:
                k = rng.choice(idx)
                pre, _, post = lines[k].partition("::")
                lines[k] = pre.rstrip()[:-1] + rng.choice(["x", "_", " ", "é"]) + "::" + post
            else:
                lines.insert(i, ".. nosuchdirective:: x")
        elif m == "bad-option":
            idx = [k for k, l in enumerate(lines) if l.lstrip().startswith(":") and l.count(":") >= 2]
            if idx:
                k = rng.choice(idx)
                l = lines[k]
                lines[k] = rng.choice([l.replace(":", "", 1), l.rstrip() + " :", l.replace(": ", ":", 1), l + "\n" + l])
            else:
                lines.insert(i, "   :bad option")
        elif m == "short-underline":
            idx = [k for k, l in enumerate(lines) if len(l) >= 3 and len(set(l)) == 1 and l[0] in "=-~^\"+"]
            if idx:
                k = rng.choice(idx)
                lines[k] = lines[k][: rng.randrange(1, len(lines[k]))]
        elif m == "unterminated-table":
            lines[i:i] = rng.choice([["+-----+-----+", "| a   | b   |"], ["=====  =====", "A      B"], ["+-----+", "| a   | b |", "+--"]])
        elif m == "tab":
            l = lines[i]
            lines[i] = rng.choice(["\t" + l, l.replace("   ", "\t", 1), l + "\t"])
        elif m == "unichar":
            l = lines[i]
            pos = rng.randrange(len(l) + 1)
            lines[i] = l[:pos] + _rand_char(rng) + l[pos:]
        elif m == "swap-lines":
            j = rng.randrange(len(lines))
            lines[i], lines[j] = lines[j], lines[i]
        elif m == "join-lines":
            if i + 1 < len(lines):
                lines[i] = lines[i] + lines[i + 1]
                del lines[i + 1]
        elif m == "merge-conflict":
            lines[i:i] = ["<<<<<<< HEAD", "ours", "=======", "theirs", ">>>>>>> branch"]
        elif m == "constant":
            lines[i] = lines[i] + rng.choice([" {+version+}", " {+undefined-constant+}", " {+", " {{x}}"])
    return "\n".join(lines), used


def gen_rst_case(rng) -> Dict[str, Any]:
    fileid = "index.txt" if rng.random() < 0.8 else "includes/x.rst"
    g = G(rng, budget=rng.choice([6, 12, 20, 30, 36]))
    text = gen_document(g)
    tags = set(g.tags)
    if rng.random() < 0.25:
        text, used = mutate(rng, text)
        tags.add("malformed")
        tags.update("mut:" + m for m in used)
    text = text.replace("\x00", "")
    return {"kind": "rst", "fileid": fileid, "text": text, "tags": sorted(tags)}


# --------------------------------------------------------------------------------------
# projects
# --------------------------------------------------------------------------------------

SVG = '<svg xmlns="http://www.w3.org/2000/svg" width="120" height="40" viewBox="0 0 120 40"><rect width="120" height="40"/></svg>\n'
PAGE_NAMES = ["tutorial", "reference", "guide/install", "faq", "release-notes", "ref/method/db.foo"]


def _toml_str(s: str) -> str:
    return '"' + s.replace("\\", "\\\\").replace('"', '\\"').replace("\n", "\\n") + '"'


def gen_snooty_toml(g: G, pages: List[str]) -> str:
    rng = g.rng
    out = ['name = "verif"']
    if g.p(0.6):
        out.append("title = " + _toml_str(g.ch(["Verif Docs", "MongoDB *Manual*", "T |prod|"])))
    if g.p(0.3):
        out.append("toc_landing_pages = [" + ", ".join(_toml_str("/" + p) for p in pages[: rng.randint(0, 2)]) + "]")
    if g.p(0.08):
        out.append('default_domain = "mongodb"')
    if g.p(0.1):
        out.append("eol = true")
    if g.p(0.1):
        out.append('canonical = "https://example.com/docs"')
    if g.p(0.05):
        g.tags.add("toml-bad")
        out.append(g.ch(['unknown_key = 1', 'name = 3', 'intersphinx = "notalist"']))
    if g.p(0.1):
        out.append("multi_page_tutorials = [" + _toml_str("/" + g.ch(pages)) + "]" if pages else "")
    if g.p(0.12):
        out.append('[[associated_products]]\nname = "other-project"\nversions = ["v1", "v2"]')
    if g.p(0.5):
        g.tags.add("toml-constants")
        out += ["", "[constants]", 'version = "7.0"', 'base = "v{+version+}"']
        if g.p(0.2):
            out.append('undefined-user = "{+nope+}"')
        if g.p(0.3):
            out.append("num = 3")
    if g.p(0.6):
        g.tags.add("toml-substitutions")
        out += ["", "[substitutions]"]
        out.append("prod = " + _toml_str(g.ch(["MongoDB", "*Mongo* DB", ":guilabel:`Prod`", "`link <https://example.com>`_", "a\n\nb",
                                                     "Intro\n\nDetails\n-------\n\nbody", "* a\n* b", "| line one\n| line two", "term\n  definition",
                                                     "1. one\n2. two", ".. note:: block note"])))
        if g.p(0.5):
            out.append("ver = " + _toml_str(g.ch(["{+version+}", "7.0", "|prod| 7"])))
        if g.p(0.3):
            out.append('"long-name" = ' + _toml_str(inline(g, 2, "arg")))
        if g.p(0.04):
            g.tags.add("subst-circular")
            out.append('selfref = "x |selfref|"')
    for _ in range(rng.choice([0, 0, 1, 2])):
        g.tags.add("toml-banner")
        out += ["", "[[banners]]"]
        out.append("targets = [" + ", ".join(_toml_str(t) for t in rng.sample(["*.txt", "guide/*.txt", "index.txt", "tutorial.txt", "nothing/*"], rng.randint(1, 2))) + "]")
        if g.p(0.7):
            out.append("variant = " + _toml_str(g.ch(["info", "warning", "danger", "bogus"])))
        if g.p(0.9):
            out.append("value = " + _toml_str(g.ch([inline(g, 3, "arg"), "This is *deprecated* :ref:`intro`", "", "- a list\n- item", "|prod| banner"])))
    return "\n".join(out) + "\n"


def gen_include_file(g: G, kind: str) -> str:
    if kind == "replaceable":
        lines = [f"Inline use of |rep-inline| and |prod| {inline(g, 2)}.", "", "|rep-block|", "", f"Heading with |rep-two|", "~~~~~~~~~~~~~~~~~~~~~~~~~~~~~~", "",
                 f"{g.words(1, 3)} |rep-two| {g.words(1, 2)}", "", "term |rep-block|", "   definition |rep-inline|", ""]
        if g.p(0.4):
            lines += ["- item |rep-block|", "", ".. note:: |rep-inline|", "", "   |rep-two|", ""]
        return "\n".join(lines)
    if kind == "markers":
        return "\n".join(["Before the marker.", "", ".. start-marker", "", inline(g, 3), "", ".. _inc-label:", "", "Included *content*.", "", ".. end-marker", "", "After the marker [#]_.", "", ".. [#] note in include", ""])
    if kind == "nested":
        return "\n".join(["Outer include.", "", ".. include:: /includes/fact-replaceable.rst", "", "   .. replacement:: rep-inline", "", "      nested-inline", "", g.ch([".. include:: /includes/fact-nested.rst", ".. include:: /includes/missing.rst", ""]), ""])
    g2 = G(g.rng, g.project, budget=8)
    text = gen_document(g2, with_title=False, min_lines=2)
    g.tags.update(g2.tags)
    return text


def gen_steps_yaml(g: G) -> str:
    docs = []
    n = g.rng.randint(1, 3)
    for i in range(n):
        d = []
        k = g.wch([(60, "plain"), (20, "inherit"), (10, "oldheading"), (10, "actions")])
        if k == "inherit" and i > 0:
            d += ["source:", "  file: " + g.ch(["steps-foo.yaml", "steps-missing.yaml"]), "  ref: " + g.ch(["step-0", "no-such-ref"])]
            if g.p(0.5):
                d += ["ref: inherited-%d" % i]
            if g.p(0.5):
                d += ["replacement:", "  thing: \"``replaced``\""]
        else:
            if k == "oldheading":
                d += ["title:", "  text: " + _yaml_str(inline(g, 2, "arg")), "  character: '-'"]
            else:
                d += ["title: " + _yaml_str(g.ch([inline(g, 3, "arg"), "Install {{thing}} on *Linux*", "- not a list", "Title\n=====", ".. note:: x"]))]
            d += ["ref: step-%d" % i if g.p(0.92) else "ref: step-0"]
            d += ["stepnum: %d" % (i + 1), "level: 4"]
            if g.p(0.2):
                d += ["optional: true"]
            if g.p(0.5):
                d += ["pre: |"] + _ind(blocks(g, 2, 1), 2)
            if g.p(0.5):
                d += ["content: |"] + _ind(blocks(g, 1, g.rng.randint(1, 2)), 2)
            if k == "actions" or g.p(0.4):
                if g.p(0.5):
                    d += ["action:", "  - heading: " + _yaml_str(inline(g, 2, "arg")), "    pre: " + _yaml_str(inline(g, 2)), "    language: sh", "    code: |", "      ls -l {{thing}}", "    post: " + _yaml_str(inline(g, 2)),
                          "  - pre: second action", "    copyable: false", "    code: echo"]
                else:
                    d += ["action:", "  heading: 'action heading'", "  content: " + _yaml_str(inline(g, 2)), "  language: javascript", "  code: |", "    db.foo()"]
            if g.p(0.3):
                d += ["post: " + _yaml_str(inline(g, 3))]
            if g.p(0.3):
                d += ["replacement:", "  thing: \"``thing``\""]
        docs.append("\n".join(d))
    text = "\n---\n".join(docs) + "\n...\n"
    return _break_yaml(g, text)


def _yaml_str(s: str) -> str:
    return '"' + s.replace("\\", "\\\\").replace('"', '\\"').replace("\n", "\\n").replace("\t", "\\t") + '"'


def _break_yaml(g: G, text: str) -> str:
    if g.p(0.12):
        g.tags.add("yaml-malformed")
        k = g.ch(["syntax", "type", "unknown-key", "empty", "scalar", "escape", "escape"])
        if k == "escape":
            # a YAML escape at the end of the first double-quoted scalar: a lone surrogate is no character (not encodable
            # as UTF-8, hence not as BSON), the others are ordinary text
            return text.replace('"\n', " " + g.ch(["\\ud800", "\\udfff x", "\\u00e9", "\\U0001F600", "\\x07"]) + '"\n', 1)
        if k == "syntax":
            return text.replace(": ", ": [", 1)
        if k == "type":
            return "ref: [1, 2]\ncontent: 3\n---\n" + text
        if k == "unknown-key":
            return "bogus_key: 1\nref: extra\n---\n" + text
        if k == "empty":
            return ""
        return "just a scalar\n"
    return text


def gen_extracts_yaml(g: G) -> str:
    docs = []
    for i in range(g.rng.randint(1, 3)):
        k = g.wch([(58, "plain"), (25, "inherit"), (8, "private"), (6, "noref"), (3, "only")])
        d = []
        if k == "inherit" and i > 0:
            d += ["ref: ext-%d" % i, g.ch(["inherit:", "source:"]), "  file: " + g.ch(["extracts-foo.yaml", "extracts-missing.yaml"]), "  ref: " + g.ch(["ext-0", "_private", "nope"]),
                  "replacement:", "  operation: " + _yaml_str(g.ch(["``create``", "*op*", ":ref:`intro`"]))]
            if g.p(0.3):
                d += ["post: " + _yaml_str(inline(g, 2))]
        else:
            d += ["ref: " + {"private": "_private", "noref": "''"}.get(k, "ext-%d" % i)] if k != "noref" or g.p(0.5) else []
            if g.p(0.3):
                d += ["title: " + _yaml_str(g.ch([inline(g, 2, "arg"), "Heading {{operation}}"]))]
            if g.p(0.2):
                d += ["pre: " + _yaml_str(inline(g, 2))]
            d += ["content: |"] + _ind(["{{operation}} obtains a lock. " + inline(g, 2), ""] + blocks(g, 1, g.rng.randint(1, 2)), 2)
            if g.p(0.5):
                d += ["replacement:", "  operation: \"``base``\""]
            if k == "only":
                g.tags.add("extract-only")
                d += ["only: html"]
        docs.append("\n".join(d))
    return _break_yaml(g, "\n---\n".join(docs) + "\n...\n")


def gen_release_yaml(g: G) -> str:
    docs = ["ref: _base\ncopyable: true\nlanguage: sh\ncode: |\n  tar -zxvf mongodb-{{platform}}-{{version}}.tgz"]
    for i in range(g.rng.randint(1, 2)):
        d = ["ref: rel-%d" % i, "source:", "  file: " + g.ch(["release-foo.yaml", "release-missing.yaml"]), "  ref: " + g.ch(["_base", "nope"]), "replacement:", "  platform: linux"]
        if g.p(0.6):
            d += ["  version: \"{+version+}\""]
        if g.p(0.4):
            d += ["pre: " + _yaml_str(inline(g, 2))]
        docs.append("\n".join(d))
    return _break_yaml(g, "\n---\n".join(docs) + "\n...\n")


def gen_ast_file(g: G, name: str) -> str:
    """a pre-built AST (source/*.ast, read by Project.build through util.NodeDeserializer)"""
    import json

    def text(v: str) -> Dict[str, Any]:
        return {"type": "text", "position": {"start": {"line": 1}}, "value": v}

    def para(*kids) -> Dict[str, Any]:
        return {"type": "paragraph", "position": {"start": {"line": 2}}, "children": list(kids)}

    inline_nodes = [
        text(g.words(1, 3)),
        {"type": "emphasis", "children": [text("em")]},
        {"type": "strong", "children": [text("strong")]},
        {"type": "literal", "children": [text("lit")]},
        {"type": "role", "domain": "", "name": "guilabel", "target": "", "flag": "", "children": [text("Label")]},
        {"type": "ref_role", "domain": "std", "name": "label", "target": g.ch(g.project.get("labels", ["x"]) + ["nope"]), "flag": "", "children": []},
        {"type": "reference", "refuri": "https://example.com", "refname": "", "children": [text("link")]},
        {"type": "substitution_reference", "name": "prod", "children": []},
        {"type": "footnote_reference", "id": "id1", "refname": "n", "children": []},
        {"type": "inline_target", "domain": "std", "name": "term", "html_id": None, "options": None, "children": [{"type": "target_identifier", "ids": ["t"], "children": [text("t")]}]},
        {"type": "named_reference", "refname": "x", "refuri": "https://example.com/x"},
    ]
    block_nodes = [
        para(*g.rng.sample(inline_nodes, g.rng.randint(1, 4))),
        {"type": "label", "children": [text("a label")]},
        {"type": "table", "children": [para(text("cell"))]},
        {"type": "list", "enumtype": g.ch(["unordered", "arabic", "bogus"]), "startat": g.ch([None, 3]), "children": [{"type": "listItem", "children": [para(text("item"))]}]},
        {"type": "code", "lang": "python", "caption": None, "copyable": True, "emphasize_lines": [[1, 2]], "value": "print(1)", "linenos": False, "lineno_start": None, "source": None},
        {"type": "directive", "domain": "", "name": "note", "argument": [text("Arg")], "options": {"class": "x"}, "children": [para(text("in note"))]},
        {"type": "directive", "domain": "", "name": "toctree", "argument": [], "options": {}, "entries": [{"title": "T", "slug": "/tutorial"}, {"slug": "/no-title"}, "junk"], "children": []},
        {"type": "target", "domain": "std", "name": "label", "html_id": None, "options": None, "children": [{"type": "target_identifier", "ids": ["ast-label"], "children": []}]},
        {"type": "transition"},
        {"type": "comment", "children": [text("c")]},
        {"type": "footnote", "id": "n", "name": "n", "children": [para(text("fn"))]},
        {"type": "definitionList", "children": [{"type": "definitionListItem", "term": [text("term")], "children": [para(text("def"))]}]},
        {"type": "line_block", "children": [{"type": "line", "children": [text("l")]}]},
        {"type": "field_list", "children": [{"type": "field", "name": "returns", "label": "Returns", "children": [para(text("x"))]}]},
        {"type": "substitution_definition", "name": "astsub", "children": [text("v")]},
        {"type": "substitution_reference", "name": "prod", "children": []},
        {"type": "directive_argument", "children": [text("da")]},
        {"type": "no_such_node_type", "children": []},
    ]
    kids = g.rng.sample(block_nodes, g.rng.randint(2, 6))
    section = {"type": "section", "children": [{"type": "heading", "id": g.ch(["ast-title", "", None]), "children": [text("AST " + g.words(1, 2))]}] + kids}
    root: Dict[str, Any] = {"type": "root", "position": {"start": {"line": 0}}, "fileid": name + ".ast", "options": {}, "children": [section]}
    if g.p(0.3):
        g.tags.add("ast-file-illtyped")
        k = g.ch(["drop-field", "wrong-type", "not-root", "not-json", "extra"])
        if k == "drop-field":
            victim = g.ch(kids)
            for f in sorted(victim):
                if f not in ("type", "children") and g.p(0.5):
                    del victim[f]
            if g.p(0.3):
                del root["fileid"]
            if g.p(0.3):
                del root["options"]
        elif k == "wrong-type":
            victim = g.ch(kids)
            for f in sorted(victim):
                if f != "type" and g.p(0.4):
                    victim[f] = g.ch([3, 1.5, "str", None, {"k": {"nested": [1, 2.5, None]}}, [1, "a"], True])
        elif k == "not-root":
            root = section
        elif k == "not-json":
            return "{not json"
        else:
            root["children"].append({"type": "text", "value": "loose text", "extra_field": 1})
            root["options"] = {"template": "landing", "n": 3, "f": 1.5, "none": None, "deep": {"a": [1, {"b": None}]}}
    g.tags.add("ast-file")
    return json.dumps(root, indent=1, sort_keys=True)


def gen_project_case(rng) -> Dict[str, Any]:
    g0 = G(rng, budget=8)
    npages = rng.randint(1, 3)
    pages = rng.sample(PAGE_NAMES, npages)
    files: Dict[str, str] = {}
    project: Dict[str, Any] = {
        "docs": ["/index"] + ["/" + p for p in pages],
        "labels": ["ref-index"] + ["ref-" + p.replace("/", "-") for p in pages] + ["inc-label", "dup-label"],
        "includes": [], "images": [], "code": [], "openapi": [],
    }
    # auxiliary files
    inc_kinds = rng.sample(["replaceable", "markers", "nested", "random"], rng.randint(1, 3))
    for k in inc_kinds:
        project["includes"].append(f"/includes/fact-{k}.rst")
    if "nested" in inc_kinds and "replaceable" not in inc_kinds and rng.random() < 0.7:
        inc_kinds.append("replaceable")
        project["includes"].append("/includes/fact-replaceable.rst")
    has_steps = rng.random() < 0.4
    has_extracts = rng.random() < 0.4
    has_release = rng.random() < 0.2
    if has_steps:
        project["includes"].append("/includes/steps/foo.rst")
    if has_extracts:
        project["includes"] += ["/includes/extracts/ext-0.rst", "/includes/extracts/ext-1.rst"]
    if has_release:
        project["includes"].append("/includes/release/rel-0.rst")
    if rng.random() < 0.4:
        project["images"].append("/images/pic.svg")
        files["source/images/pic.svg"] = SVG
    if rng.random() < 0.4:
        project["code"].append("/code/sample.js")
        files["source/code/sample.js"] = "// start-marker\nfunction f() {\n    return 1;\n}\n// end-marker\n  // start-marker again\n"
    if rng.random() < 0.25:
        # a code file that is not UTF-8 (latin-1 comment, stray bytes): whatever the page says about it has to serialise
        project["code"].append("/code/legacy.py")
        files["source/code/legacy.py"] = {"hex": (b"# caf\xe9 start-marker\nx = 1\n# end-marker \xff\xfe\n").hex()}
    if rng.random() < 0.15:
        project["openapi"].append("/openapi/spec.yaml")
        files["source/openapi/spec.yaml"] = "openapi: 3.0.0\ninfo:\n  title: T\n  version: '1'\npaths: {}\n"
    if rng.random() < 0.2:
        g0.tags.add("facets-toml")
        files["source/facets.toml"] = '[[facets]]\ncategory = "target_product"\nvalue = "atlas"\n\n  [[facets.sub_facets]]\n  category = "sub_product"\n  value = "charts"\n\n[[facets]]\ncategory = "genre"\nvalue = "%s"\n' % rng.choice(["tutorial", "bogus"])
    g0.project = project
    files["snooty.toml"] = gen_snooty_toml(g0, pages)
    for k in inc_kinds:
        files[f"source/includes/fact-{k}.rst"] = gen_include_file(g0, k)
    if has_steps:
        files["source/includes/steps-foo.yaml"] = gen_steps_yaml(g0)
    if has_extracts:
        files["source/includes/extracts-foo.yaml"] = gen_extracts_yaml(g0)
    if has_release:
        files["source/includes/release-foo.yaml"] = gen_release_yaml(g0)
    if rng.random() < 0.15:
        files["source/api.ast"] = gen_ast_file(g0, "api")
        project["docs"].append("/api")
    tags = set(g0.tags)

    def page_text(name: str, is_index: bool) -> str:
        g = G(rng, project, budget=rng.choice([4, 8, 12]))
        lines: List[str] = []
        label = "ref-" + name.replace("/", "-")
        if g.p(0.85):
            lines += [f".. _{label}:", ""]
        title = g.ch([g.words(1, 3), inline(g, 2, "heading")])
        lines += [title, "=" * _width(title), ""]
        ntitle = len(lines)
        if g.p(0.3):
            lines += [".. default-domain:: mongodb", ""]
        if is_index:
            entries = list(project["docs"][1:])
            if g.p(0.3):
                entries.append("/missing-page")
            if g.p(0.3):
                entries.append("Example <https://example.com>")
            if g.p(0.2) and entries:
                entries[0] = "Custom Title <" + entries[0] + ">"
            lines += dl("toctree", None, [("titlesonly", "")] if g.p(0.5) else [], entries) + [""]
        # project level constructs
        for _ in range(g.rng.randint(1, 4)):
            k = g.wch([(22, "include"), (14, "xref"), (10, "rstobject"), (8, "dup-label"), (8, "doc"), (6, "subst"), (6, "giza"), (6, "constant"), (20, "body")])
            if k == "include":
                lines += d_include(g, 0) + [""]
            elif k == "xref":
                lab = g.ch(project["labels"] + ["no-such-label"])
                lines += [f"See :ref:`{lab}` and :ref:`{g.words(1, 2)} <{g.ch(project['labels'])}>` {inline(g, 2)}.", ""]
            elif k == "rstobject":
                tags.add("rstobject-target")
                lines += dl("method", g.ch(["db.foo()", "db.foo(a, b)", "db.bar()"]), [("hidden", "")] if g.p(0.2) else [], para_lines(g) + ["", ":returns: " + g.words(1, 2)]) + [""]
                lines += dl("dbcommand", "find", [], para_lines(g)) + [""] if g.p(0.4) else []
                lines += [f"Call :method:`db.foo()` or :method:`~db.bar()` or :dbcommand:`find` or :method:`db.missing()`.", ""]
            elif k == "dup-label":
                tags.add("duplicate-label")
                lines += [".. _dup-label:", "", g.words(1, 3), "-" * 30, ""]
            elif k == "doc":
                d = g.ch(project["docs"] + ["/missing-page"])
                lines += [f"Read :doc:`{d}` or :doc:`{g.words(1, 2)} <{d}>`.", ""]
            elif k == "subst":
                lines += [f"Product |prod| version |ver| and |long-name| {sub_ref(g)}.", "", "|prod|", ""]
            elif k == "giza":
                inc = [i for i in project["includes"] if "/steps/" in i or "/extracts/" in i or "/release/" in i] or ["/includes/steps/missing.rst"]
                lines += [f".. include:: {g.ch(inc)}", ""]
            elif k == "constant":
                lines += [f"Version {{+version+}} base {{+base+}} {g.ch(['{+undefined+}', ''])}", ""]
            else:
                lines += blocks(g, 0, 1) + [""]
        head, tail = doc_tail(g)
        tags.update(g.tags)
        return "\n".join(lines[:ntitle] + (head + [""] if head else []) + lines[ntitle:] + tail) + "\n"

    files["source/index.txt"] = page_text("index", True)
    for p in pages:
        files[f"source/{p}.txt"] = page_text(p, False)
    if len(pages) >= 2 and rng.random() < 0.25:
        # templated pages: the same text (hence the same undefined target on the same line) on two pages
        tmpl = files[f"source/{pages[0]}.txt"].rstrip("\n") + "\n\nTemplated :ref:`no-such-label-tmpl` and :method:`db.missingTmpl()`.\n"
        files[f"source/{pages[0]}.txt"] = tmpl
        files[f"source/{pages[1]}.txt"] = tmpl
        tags.add("templated-pages")
    if rng.random() < 0.12:
        for rel in sorted(files):
            if rel.endswith((".txt", ".rst")) and rng.random() < 0.5:
                files[rel], used = mutate(rng, files[rel])
                files[rel] = files[rel].replace("\x00", "")
                tags.add("malformed")
                tags.update("mut:" + m for m in used)
    return {"kind": "project", "files": files, "tags": sorted(tags)}
