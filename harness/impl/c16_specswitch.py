"""C16 helper, run as a process of its own: configurations opened while the directive specification IN FORCE changes.

stdin: {"steps": [ {"spec_fields": [..] | null, "data": {key: value}} ... ]}
Each step optionally puts a specification with the given `data_fields` in force (Spec.initialize, what `--rstspec` does; null = the
one in force stays), then opens a project whose snooty.toml has the given [data] table, and reports which keys were refused.
stdout: {"rows": [ {"in_force": [...], "refused": [...], "exc": null | str} ]}
A process of its own because Spec.initialize replaces process-wide state.
"""
import json
import shutil
import sys
import tempfile
from pathlib import Path

from snooty import specparser
from snooty import util
from snooty.types import ProjectConfig


def main() -> None:
    req = json.load(sys.stdin)
    base = util.PACKAGE_ROOT.joinpath("rstspec.toml").read_text(encoding="utf-8")
    first = base.split("\n", 1)
    assert first[0].startswith("data_fields = "), first[0]
    rows = []
    for st in req["steps"]:
        if st["spec_fields"] is not None:
            specparser.Spec.initialize("data_fields = " + json.dumps(st["spec_fields"]) + "\n" + first[1])
        in_force = list(specparser.Spec.get().data_fields)
        tmp = Path(tempfile.mkdtemp(prefix="verif-c16spec-"))
        try:
            toml = 'name = "x"\n[data]\n' + "".join(f"{k} = {json.dumps(v)}\n" for k, v in st["data"].items())
            tmp.joinpath("snooty.toml").write_text(toml, encoding="utf-8")
            tmp.joinpath("source").mkdir()
            try:
                cfg, diags = ProjectConfig.open(tmp)
                refused = sorted(k for k in st["data"] if any(repr(k) in str(d.message) or f'"{k}"' in str(d.message) or k in str(d.message) for d in diags))
                rows.append({"in_force": in_force, "refused": refused, "diags": [type(d).__name__ for d in diags], "exc": None})
            except Exception as e:
                rows.append({"in_force": in_force, "refused": None, "diags": [], "exc": f"{type(e).__name__}: {e}"[:200]})
        finally:
            shutil.rmtree(tmp, ignore_errors=True)
    json.dump({"rows": rows}, sys.stdout)


if __name__ == "__main__":
    main()
