"""In-process driver for C01: runs the REAL parser entry points on one text with a watchdog and a monitor of the
state-machine Progress contract (the hypotheses of `runSM_terminates`)."""
import atexit
import os
import shutil
import signal
import struct
import tempfile
import traceback
import zlib
from pathlib import Path
from typing import Any, Dict, Optional

from snooty import n, rstparser
from snooty.n import FileId
from snooty.page import Page
from snooty.parser import EmbeddedRstParser, InlineJSONVisitor, JSONVisitor, parse_rst
from snooty.tinydocutils import statemachine, states
from snooty.types import ProjectConfig

# After this many parses ran into the watchdog, the pool workers stop parsing further cases of the stream (each would cost another
# watchdog period): the hangs already seen are reported - with their inputs - and that is enough to decide the run. Only in pool
# workers: shrinking, confirmation and --replay in the main process always parse.
HANG_LIMIT = 12
import multiprocessing as _mp
HANGS = _mp.Value("i", 0)
WATCHDOG_S = 10        # CPU seconds of the parsing process (a loop that does not terminate burns CPU; immune to machine load)
WATCHDOG_WALL_S = 120  # wall-clock backstop (blocking calls)
_ROOT: Optional[Path] = None
_ROOT_PID = None


def _png() -> bytes:
    def chunk(t, d):
        c = struct.pack(">I", len(d)) + t + d
        return c + struct.pack(">I", zlib.crc32(t + d) & 0xFFFFFFFF)
    raw = b"\x00\xff\xff\xff"
    return b"\x89PNG\r\n\x1a\n" + chunk(b"IHDR", struct.pack(">IIBBBBB", 1, 1, 8, 2, 0, 0, 0)) + chunk(b"IDAT", zlib.compress(raw)) + chunk(b"IEND", b"")


def root() -> Path:
    """a small real project tree so that file-reading directive branches are reached (created once, in the parent)"""
    global _ROOT, _ROOT_PID
    if _ROOT is None:
        _ROOT = Path(tempfile.mkdtemp(prefix="snooty-verif-c01-"))
        _ROOT_PID = os.getpid()
        src = _ROOT / "source"
        for d in ("images", "code", "includes"):
            (src / d).mkdir(parents=True)
        (src / "images" / "a.png").write_bytes(_png())
        (src / "images" / "bad.bin").write_bytes(b"\x00\x01garbage\xff\xfe")
        (src / "code" / "a.py").write_text("# m1\nx = 1\n  y = 2\n# m2\nx = 1\n")
        (src / "code" / "latin1.txt").write_bytes(b"caf\xe9\n")
        (src / "code" / "empty.txt").write_bytes(b"")
        (src / "code" / "spec.yaml").write_text("openapi: 3.0.0\ninfo: {title: t, version: '1'}\npaths: {}\n")
        # spec files that are not YAML, or YAML that is not JSON (a date, a self-referential alias)
        (src / "code" / "bad.yaml").write_text("a: [1, 2\n")
        (src / "code" / "date.yaml").write_text("a: 2001-01-01\n")
        (src / "code" / "alias.yaml").write_text("a: &x\n  b: *x\n")
        (src / "code" / "tab.yaml").write_text("a:\n\tb: 1\n")
        (src / "includes" / "a.rst").write_text("included\n")
        # symbolic links that lead nowhere: onto themselves, to a missing file
        os.symlink("loop.py", src / "code" / "loop.py")
        os.symlink("loop.png", src / "images" / "loop.png")
        os.symlink("gone.py", src / "code" / "dangling.py")
        (_ROOT / "snooty.toml").write_text('name = "verif"\n')

        def _cleanup(path=_ROOT, pid=_ROOT_PID):
            if os.getpid() == pid:
                shutil.rmtree(path, ignore_errors=True)
        atexit.register(_cleanup)
    return _ROOT


class Watchdog(BaseException):
    pass


def _alarm(signum, frame):
    raise Watchdog()


# ---------------------------------------------------------------------------------------------------------------
# monitor of the Progress contract of Model/StateMachine.lean on the real StateMachine
# ---------------------------------------------------------------------------------------------------------------
MON: Dict[str, Any] = {"viol": [], "max_per_line": 0, "checks": 0, "corrections": 0, "installed_on": None}
PER_LINE_LIMIT = 6  # 4n+6 total is the theorem's bound; per line the concrete parser needs <= 3


def install_monitor():
    SM = statemachine.StateMachine
    if MON["installed_on"] is SM.check_line:
        return
    orig_check, orig_run = SM.check_line, SM.run_sm

    def run_sm(self, *a, **k):
        saved = getattr(self, "_verif_counts", None)
        self._verif_counts = {}
        try:
            return orig_run(self, *a, **k)
        finally:
            self._verif_counts = saved

    def check_line(self, context, state, transitions=None):
        entry = self.line_offset
        forced = transitions is not None
        counts = getattr(self, "_verif_counts", None)
        if counts is not None:
            c = counts[entry] = counts.get(entry, 0) + 1
            if c > MON["max_per_line"]:
                MON["max_per_line"] = c
            if c > PER_LINE_LIMIT:
                MON["viol"].append(f"line checked {c} times in one run (state {type(state).__name__})")
                raise Watchdog()
        MON["checks"] += 1
        look = isinstance(state, states.Line)
        try:
            res = orig_check(self, context, state, transitions)
        except statemachine.TransitionCorrection:
            MON["corrections"] += 1
            if forced:
                MON["viol"].append(f"forced_settles: TransitionCorrection answered by a correction ({type(state).__name__})")
            if self.line_offset != entry:
                MON["viol"].append(f"trans_same_line: TransitionCorrection raised at offset {self.line_offset}, entry {entry} ({type(state).__name__})")
            raise
        except statemachine.StateCorrection as e:
            MON["corrections"] += 1
            if forced:
                MON["viol"].append(f"forced_settles: StateCorrection on a forced retry ({type(state).__name__})")
            if not look:
                MON["viol"].append(f"state_corr: StateCorrection from non-lookahead state {type(state).__name__}")
            if e.new_state is states.Line or e.transition is None:
                MON["viol"].append("state_corr: correction to a lookahead state / without a forced transition")
            if not (entry - 1 <= self.line_offset <= entry):
                MON["viol"].append(f"state_corr: backs up to {self.line_offset} from entry {entry}")
            raise
        if self.line_offset < entry:
            MON["viol"].append(f"adv_mono: transition {type(state).__name__} left offset {self.line_offset} below entry {entry}")
        if forced and res[1] is states.Line:
            MON["viol"].append("forced_settles: forced retry entered the lookahead state")
        return res

    SM.check_line, SM.run_sm = check_line, run_sm
    MON["installed_on"] = check_line


# ---------------------------------------------------------------------------------------------------------------
# recording the real visitor's dispatch outcomes (node class, visitor, how dispatch_visit left)
# ---------------------------------------------------------------------------------------------------------------
REC: Dict[str, Any] = {"on": False, "pairs": set(), "installed": False}


def qual(cls) -> str:
    mod = cls.__module__
    if mod.endswith("tinydocutils.nodes"):
        return "nodes." + cls.__name__
    if mod.endswith("snooty.rstparser"):
        return "rstparser." + cls.__name__
    return mod + "." + cls.__name__


def install_recorder():
    if REC["installed"]:
        return
    from snooty.tinydocutils import nodes as dn

    def wrap(cls, label):
        orig = cls.__dict__["dispatch_visit"]

        def dispatch_visit(self, node):
            if not REC["on"]:
                return orig(self, node)
            try:
                orig(self, node)
            except dn.SkipNode:
                REC["pairs"].add((qual(type(node)), label, "skipNode"))
                raise
            except dn.SkipDeparture:
                REC["pairs"].add((qual(type(node)), label, "skipDeparture"))
                raise
            except dn.SkipChildren:
                REC["pairs"].add((qual(type(node)), label, "skipChildren"))
                raise
            except Watchdog:
                raise
            except Exception as e:
                REC["pairs"].add((qual(type(node)), label, "raise:" + type(e).__name__))
                raise
            REC["pairs"].add((qual(type(node)), label, "ret"))
        cls.dispatch_visit = dispatch_visit
    wrap(JSONVisitor, "visit")
    wrap(InlineJSONVisitor, "inline")
    REC["installed"] = True


def where_of(e: BaseException):
    where, detail = "?", ""
    t = e.__traceback__
    while t is not None:
        fr = t.tb_frame
        fn = fr.f_code.co_filename
        if "/snooty/" in fn:
            slf = fr.f_locals.get("self")
            cls = (type(slf).__name__ + ".") if slf is not None else ""
            where = f"{fn.split('/snooty/')[-1]}:{cls}{fr.f_code.co_name}"
            if fr.f_code.co_name in ("dispatch_visit", "dispatch_departure"):
                nd = fr.f_locals.get("node")
                if nd is not None:
                    detail = type(nd).__name__
                    if detail in ("directive", "target_directive"):
                        try:
                            detail += ":" + str(nd["name"])
                        except Exception:
                            pass
        t = t.tb_next
    return where, detail


def config(case) -> ProjectConfig:
    kw = {}
    if case.get("domain") is not None:
        kw["default_domain"] = case["domain"]
    cfg = ProjectConfig(root(), "verif", **kw)
    cfg.constants = {"version": "1.0", "multi": "a\nb"}
    if case.get("sharedinclude"):
        cfg.sharedinclude_root = "http://127.0.0.1:1/"
    return cfg


KILL_AFTER_S = 40      # wall seconds after which a parse run by run_isolated is killed


def run_isolated(case: dict) -> dict:
    """`run` in a forked child that is KILLED when it has not answered after KILL_AFTER_S (used in the main process: corpus cases,
    shrinking, confirmation, --replay; the pool workers are watched by the harness core instead). The watchdogs inside `run` are
    Python signal handlers: they cannot fire while the interpreter is inside one C call."""
    import pickle
    import select
    import time as _time
    r, w = os.pipe()
    pid = os.fork()
    if pid == 0:
        code = 1
        try:
            os.close(r)
            data = pickle.dumps(run(case))
            while data:
                data = data[os.write(w, data):]
            code = 0
        finally:
            os._exit(code)
    os.close(w)
    buf, deadline, killed = b"", _time.time() + KILL_AFTER_S, False
    while True:
        left = deadline - _time.time()
        if left <= 0:
            killed = True
            break
        ready, _, _ = select.select([r], [], [], left)
        if not ready:
            killed = True
            break
        chunk = os.read(r, 1 << 16)
        if not chunk:
            break
        buf += chunk
    os.close(r)
    if killed:
        try:
            os.kill(pid, signal.SIGKILL)
        except OSError:
            pass
    try:
        os.waitpid(pid, 0)
    except OSError:
        pass
    if not killed and buf:
        try:
            return pickle.loads(buf)
        except Exception:
            pass
    return {"exc": "Hang", "where": "killed", "detail": "",
            "monitor": [f"no answer within {KILL_AFTER_S} s of wall time, not even to the watchdog signals (the interpreter sat inside one C call)"],
            "max_per_line": 0, "checks": 0, "corrections": 0, "shape": [], "ok_shape": False, "diag_classes": []}


def run(case: dict, stream: bool = False) -> dict:
    """case: {text, mode: page|block|inline, domain, fileid?}; stream: called from a worker of the case stream"""
    install_monitor()
    MON["viol"] = []
    MON["max_per_line"] = 0
    MON["checks"] = 0
    MON["corrections"] = 0
    text = case["text"]
    mode = case.get("mode", "page")
    out: Dict[str, Any] = {"exc": None}
    if stream and HANGS.value >= HANG_LIMIT:
        out.update(skipped_after_hangs=True, shape=[], ok_shape=True, diag_classes=[], monitor=[], max_per_line=0, checks=0, corrections=0)
        return out

    if case.get("record"):
        install_recorder()
        REC["on"] = True
        REC["pairs"] = set()
    old = signal.signal(signal.SIGALRM, _alarm)
    old_prof = signal.signal(signal.SIGPROF, _alarm)
    signal.alarm(WATCHDOG_WALL_S)
    signal.setitimer(signal.ITIMER_PROF, WATCHDOG_S)
    try:
        cfg = config(case)
        fileid = FileId(case.get("fileid", "test.txt"))
        if mode == "page":
            parser = rstparser.Parser(cfg, JSONVisitor)
            res = parse_rst(parser, fileid, text)
            shape = []
            for page, diags in res:
                page.finish(diags)
                shape.append([type(page).__name__, type(page.ast).__name__, type(diags).__name__, len(diags)])
                out.setdefault("diag_classes", sorted({type(d).__name__ for d in diags}))
            out["shape"] = shape
            out["ok_shape"] = bool(res) and all(s[0] == "Page" and s[1] == "Root" and s[2] == "list" for s in shape)
        else:
            page = Page.create(fileid, None, "", n.Root((0,), [], fileid, {}))
            diags: list = []
            emb = EmbeddedRstParser(cfg, page, diags)
            kids = emb.parse_block(text, case.get("lineno", 0)) if mode == "block" else emb.parse_inline(text, case.get("lineno", 0))
            page.finish(diags)
            out["shape"] = [[type(kids).__name__, len(kids), len(diags)]]
            out["ok_shape"] = isinstance(kids, list) and all(isinstance(k, n.Node) for k in kids)
            out["diag_classes"] = sorted({type(d).__name__ for d in diags})
    except Watchdog:
        with HANGS.get_lock():
            HANGS.value += 1
        out["exc"] = "Hang"
        out["where"] = "watchdog" if not MON["viol"] else "monitor"
        out["detail"] = ""
    except BaseException as e:  # noqa: any escaped exception is the violation
        if isinstance(e, (KeyboardInterrupt, SystemExit)):
            raise
        out["exc"] = type(e).__name__
        out["where"], out["detail"] = where_of(e)
        out["msg"] = str(e)[:160]
        out["tb"] = traceback.format_exc()[-700:]
    finally:
        signal.setitimer(signal.ITIMER_PROF, 0)
        signal.alarm(0)
        signal.signal(signal.SIGALRM, old)
        signal.signal(signal.SIGPROF, old_prof)
    if case.get("record"):
        REC["on"] = False
        out["dispatch"] = sorted(list(p) for p in REC["pairs"])
    out["monitor"] = list(MON["viol"][:3])
    out["max_per_line"] = MON["max_per_line"]
    out["checks"] = MON["checks"]
    out["corrections"] = MON["corrections"]
    return out
