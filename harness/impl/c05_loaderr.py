"""C05 helper, run as a process of its own under a given PYTHONHASHSEED: what opening a project reports.

argv[1] = project root. stdout: JSON {"open": [[class, message], ...], "project": null | "ProjectLoadError: ..."}
"""
import json
import logging
import sys
from pathlib import Path

from snooty.types import ProjectConfig


def main() -> None:
    logging.disable(logging.CRITICAL)
    root = Path(sys.argv[1])
    out = {}
    try:
        _, diags = ProjectConfig.open(root)
        out["open"] = [[type(d).__name__, str(d.message), d.start[0]] for d in diags]
    except Exception as e:
        out["open"] = [["exception", f"{type(e).__name__}: {e}", 0]]
    text = json.dumps(out, ensure_ascii=False).replace(str(root.resolve()), "<ROOT>").replace(str(root), "<ROOT>")
    sys.stdout.write(text)


if __name__ == "__main__":
    main()
