"""Subprocess side of the C05 process-history differential: parse the given documents IN THE GIVEN ORDER in one process
with the real `parse_rst` and dump, per document, the serialised AST and the diagnostics.

usage: python c05_history.py <json in: {"docs": [text...], "order": [indices...]}> <json out>

Anything cached in module globals (directive/role registry, the pool of nested state machines `RSTState.nested_sm_cache`, the
loaded spec) is shared by the parses of one run; the harness compares two runs with different orders document by document.
"""
import json
import logging
import sys
from pathlib import Path, PurePath


def main():
    logging.disable(logging.CRITICAL)
    req = json.load(open(sys.argv[1]))
    from snooty import rstparser
    from snooty.n import FileId
    from snooty.parser import JSONVisitor, parse_rst
    from snooty.types import ProjectConfig
    # one configuration per default domain: the same process may serve projects with different default domains (language server,
    # tests, tools); the document's own domain is fixed, only what was parsed BEFORE it varies between the runs
    domains = req.get("domains") or [None] * len(req["docs"])
    cfgs = {d: ProjectConfig(Path("/nonexistent-c05-history"), "c05", default_domain=d) for d in set(domains)}
    out = {}
    for i in req["order"]:
        text = req["docs"][i]
        parser = rstparser.Parser(cfgs[domains[i]], JSONVisitor)
        try:
            page, diags = parse_rst(parser, FileId(f"d{i}.txt"), text)[0]
            out[str(i)] = {"ast": page.ast.serialize(), "diags": sorted([type(d).__name__, d.start[0], d.message] for d in diags)}
        except Exception as e:  # totality is C01's business; here only sameness matters
            out[str(i)] = {"exc": type(e).__name__ + ": " + str(e)[:200]}
    json.dump(out, open(sys.argv[2], "w"), sort_keys=True, ensure_ascii=False)


if __name__ == "__main__":
    main()
