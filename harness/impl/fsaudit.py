"""File-access audit used by C11: which paths under a directory does a piece of code look at
(open / stat / is_file / exists / scandir / listdir), and from which snooty function.

`sys.addaudithook` cannot be removed, so the hook is installed once and consults a module-level
recorder; `os.stat` (what pathlib's is_file/exists/is_dir/stat and os.path.exists/isfile
boil down to on POSIX) is wrapped only while a recorder is active and restored afterwards."""
import os
import sys
import threading

_active = None
_hook_installed = False
_lock = threading.Lock()


def _site():
    """(qualified name of the innermost snooty frame outside types.py/util.py helpers, embedded?)"""
    f = sys._getframe(3)
    best = None
    fallback = None
    embedded = False
    while f is not None:
        fn = f.f_code.co_filename
        if "/snooty/" in fn and "/harness/" not in fn:
            qn = getattr(f.f_code, "co_qualname", f.f_code.co_name)
            if qn.startswith("EmbeddedRstParser."):
                embedded = True
            base = os.path.basename(fn)
            if fallback is None:
                fallback = f"{base}:{qn}"
            if best is None and base == "parser.py":
                best = qn
        f = f.f_back
    return (best or fallback or "?"), embedded


class Recorder:
    def __init__(self, root):
        self.root = os.path.realpath(str(root))
        self.events = []      # (relative posix path, kind, site, embedded)
        self.busy = False

    def note(self, path, kind):
        if self.busy:
            return
        self.busy = True
        try:
            self._note(path, kind)
        finally:
            self.busy = False

    def _note(self, path, kind):
        try:
            p = os.fspath(path)
        except TypeError:
            return
        if isinstance(p, bytes):
            p = os.fsdecode(p)
        if not isinstance(p, str):
            return
        ap = os.path.abspath(p)
        if ap != self.root and not ap.startswith(self.root + os.sep):
            rp = os.path.realpath(ap)
            if rp != self.root and not rp.startswith(self.root + os.sep):
                return
            ap = rp
        rel = os.path.relpath(ap, self.root).replace(os.sep, "/")
        site, emb = _site()
        self.events.append((rel, kind, site, emb))


def _hook(event, args):
    rec = _active
    if rec is None:
        return
    if event == "open":
        if args and isinstance(args[0], (str, bytes, os.PathLike)):
            rec.note(args[0], "open")
    elif event in ("os.scandir", "os.listdir"):
        if args and args[0] is not None:
            rec.note(args[0], event)


class audit:
    """with audit(root) as rec: ...   -> rec.events"""

    def __init__(self, root):
        self.rec = Recorder(root)

    def __enter__(self):
        global _active, _hook_installed
        _lock.acquire()
        if not _hook_installed:
            sys.addaudithook(_hook)
            _hook_installed = True
        self._stat = os.stat
        rec = self.rec
        real_stat = os.stat

        def stat(path, *a, **k):
            if not isinstance(path, int):
                rec.note(path, "stat")
            return real_stat(path, *a, **k)

        # os.lstat (symlink probing of Path.resolve) is deliberately not wrapped
        os.stat = stat
        _active = rec
        return rec

    def __exit__(self, *exc):
        global _active
        _active = None
        os.stat = self._stat
        _lock.release()
        return False
