"""Translator n.py dataclasses -> lean/SnootyVerif/Gen/Schema.lean (value-level, deterministic).

For every subclass of snooty.n.Node that exists once snooty.parser / snooty.postprocess are imported:
its `type` ClassVar, the Node-derived part of its MRO, its dataclass fields (except `span`) with a
kind/shape code derived from the resolved type hints, and the demand of its `verify()` found by
probing minimal instances (RefRole: one of fileid/url; _DefinitionListTerm: never valid).
The class bound of `children` comes from the generic base `Parent[X]` found through `__orig_bases__`
along the MRO (first class of the MRO that binds it), never from a hard-coded list."""
import collections.abc
import dataclasses
import datetime
import enum
import typing
from typing import Any, Dict, List, Optional, Tuple

SEQ_ORIGINS = (list, tuple, collections.abc.Sequence, collections.abc.MutableSequence)
MAP_ORIGINS = (dict, collections.abc.Mapping, collections.abc.MutableMapping)

# Relaxations of the declared hints, each justified by what the unchanged code emits (see c04.py RELAXATIONS doc).
# (class, field) -> kind tuple.  Applied to the class and inherited by subclasses through dataclass inheritance.
RELAX: Dict[Tuple[str, str], tuple] = {
    # parser.py:407-415 passes None for whichever of refuri / refname the docutils node lacks
    ("Reference", "refuri"): ("opt", ("str",)),
    ("Reference", "refname"): ("opt", ("str",)),
    # declared MutableSequence["Text"]; the parser stores whatever inline nodes the argument text parses to
    ("Directive", "argument"): ("nodes", "InlineNode"),
    # declared Dict[str, str]; flag options are stored as True, converted options keep their converted value
    ("Directive", "options"): ("req", ("dict", ("ser",))),
    # same for the options of rstobject targets (e.g. `.. readconcern:: x` with `:hidden:` -> {"hidden": True})
    ("Target", "options"): ("opt", ("dict", ("ser",))),
}


class Unsupported(Exception):
    pass


def load_classes():
    import snooty.n as n
    import snooty.parser  # noqa: F401  (defines _DefinitionListTerm)
    import snooty.postprocess  # noqa: F401

    out, seen = [], set()

    def rec(c):
        if c in seen:
            return
        seen.add(c)
        out.append(c)
        for s in c.__subclasses__():
            rec(s)

    rec(n.Node)
    return n, out


def child_bound(n, cls) -> Optional[type]:
    """X of the first `Parent[X]` along the MRO"""
    for k in cls.__mro__:
        for ob in getattr(k, "__orig_bases__", ()):
            if typing.get_origin(ob) is n.Parent:
                (arg,) = typing.get_args(ob)
                if isinstance(arg, typing.TypeVar):
                    continue
                if isinstance(arg, typing.ForwardRef):
                    arg = getattr(n, arg.__forward_arg__)
                return arg
    return None


def shape_of(n, hint) -> tuple:
    if hint == n.SerializableType:
        return ("ser",)
    if hint is str:
        return ("str",)
    if hint is bool:
        return ("bool",)
    if hint is int:
        return ("int",)
    if hint is float or hint is Any or hint is datetime.datetime or hint is type(None):
        return ("ser",)
    if isinstance(hint, (typing.ForwardRef, str)):
        if getattr(hint, "__forward_arg__", hint) == "SerializableType":
            return ("ser",)
        raise Unsupported(f"unresolved forward reference {hint!r}")
    origin = typing.get_origin(hint)
    args = typing.get_args(hint)
    if origin is typing.Union:
        for a in args:
            shape_of(n, a)  # every member must itself be a plain (verbatim) shape
        return ("ser",)
    if origin in MAP_ORIGINS:
        if args[0] is not str:
            raise Unsupported(f"dict key {args[0]}")
        return ("dict", shape_of(n, args[1]))
    if origin is tuple:
        if len(args) == 2 and args[1] is not Ellipsis:
            return ("pair", shape_of(n, args[0]), shape_of(n, args[1]))
        if len(args) == 2 and args[1] is Ellipsis:
            return ("list", shape_of(n, args[0]))
        raise Unsupported(f"tuple arity {hint}")
    if origin in SEQ_ORIGINS:
        return ("list", shape_of(n, args[0]))
    raise Unsupported(f"type hint {hint!r}")


def is_node(n, t) -> bool:
    return isinstance(t, type) and issubclass(t, n.Node)


def kind_of(n, cls, name, hint) -> tuple:
    origin = typing.get_origin(hint)
    args = typing.get_args(hint)
    if origin is typing.Union and type(None) in args and len(args) == 2:
        inner = [a for a in args if a is not type(None)][0]
        if is_node(n, inner):
            raise Unsupported(f"Optional node field {cls.__name__}.{name}")
        return ("opt", shape_of(n, inner))
    if isinstance(hint, type) and issubclass(hint, n.FileId):
        return ("fileid",)
    if isinstance(hint, type) and issubclass(hint, enum.Enum):
        return ("enum", tuple(m.name for m in hint))
    if is_node(n, hint):
        return ("node", hint.__name__)
    if origin in SEQ_ORIGINS and origin is not tuple and len(args) == 1:
        el = args[0]
        if isinstance(el, typing.TypeVar):
            b = child_bound(n, cls)
            if b is None:
                b = el.__bound__ or n.Node
            return ("nodes", b.__name__)
        if is_node(n, el):
            return ("nodes", el.__name__)
        if isinstance(el, type) and issubclass(el, tuple) and hasattr(el, "serialize") and hasattr(el, "_fields"):
            if tuple(el._fields) != ("title", "url", "slug", "ref_project"):
                raise Unsupported(f"NamedTuple {el.__name__} fields {el._fields}")
            return ("entries",)
    return ("req", shape_of(n, hint))


def minimal(n, kind):
    k = kind[0]
    if k == "opt":
        return None
    if k == "fileid":
        return n.FileId("x.txt")
    if k in ("nodes", "entries"):
        return []
    if k == "node":
        raise Unsupported("nested node minimal")
    if k in ("enum", "unknown"):
        return None
    return minimal_shape(kind[1])


def minimal_shape(sh, nonempty=False):
    k = sh[0]
    if k == "str":
        return "x" if nonempty else ""
    if k == "int":
        return 0
    if k == "bool":
        return False
    if k == "ser":
        return "x" if nonempty else None
    if k == "list":
        return []
    if k == "dict":
        return {}
    if k == "pair":
        return (minimal_shape(sh[1], nonempty), minimal_shape(sh[2], nonempty))
    raise Unsupported(sh)


def probe_verify(n, cls, fields, hints) -> Tuple[List[str], bool]:
    """returns (oneOf, internal) from the behaviour of cls.verify() on childless minimal instances"""
    def build(override=None):
        kw = {"span": (0,)}
        for fname, kind in fields:
            if kind[0] == "enum":
                kw[fname] = list(hints[fname])[0]
            else:
                kw[fname] = minimal(n, kind)
        kw.update(override or {})
        return cls(**kw)

    def ok(inst):
        try:
            inst.verify()
            return True
        except AssertionError:
            return False

    if ok(build()):
        return [], False
    one = []
    for fname, kind in fields:
        if kind[0] == "opt":
            if ok(build({fname: minimal_shape(kind[1], nonempty=True)})):
                one.append(fname)
    if one:
        return one, False
    return [], True


def extract(strict: bool = False):
    """-> list of dict(name, tag, mro, fields[(name, kind)], oneOf, internal) in discovery order.
    strict=False: a hint the translator cannot express becomes kind ("unknown", text) instead of raising."""
    n, classes = load_classes()
    rows = []
    names = set()
    for cls in classes:
        if cls.__name__ in names:
            raise Unsupported(f"two Node subclasses named {cls.__name__}")
        names.add(cls.__name__)
        hints = typing.get_type_hints(cls, globalns=dict(vars(n)))
        fields = []
        for f in dataclasses.fields(cls):
            if f.name == "span":
                continue
            owner = next((k.__name__ for k in cls.__mro__ if f.name in getattr(k, "__annotations__", {})), cls.__name__)
            try:
                kind = RELAX.get((owner, f.name)) or RELAX.get((cls.__name__, f.name)) or kind_of(n, cls, f.name, hints[f.name])
            except Unsupported as e:
                if strict:
                    raise Unsupported(f"{cls.__name__}.{f.name}: {e}")
                kind = ("unknown", str(e))
            fields.append((f.name, kind))
        try:
            one, internal = probe_verify(n, cls, fields, hints)
        except Exception as e:
            if strict:
                raise Unsupported(f"{cls.__name__}: verify() probe failed: {type(e).__name__}: {e}")
            one, internal = [], False
        rows.append(dict(
            name=cls.__name__, tag=cls.type,
            mro=[k.__name__ for k in cls.__mro__ if is_node(n, k)],
            fields=fields, oneOf=one, internal=internal))
    return rows


# ---- Lean rendering -------------------------------------------------------------------

def lstr(s: str) -> str:
    return '"' + s.replace("\\", "\\\\").replace('"', '\\"') + '"'


def lshape(sh) -> str:
    k = sh[0]
    if k in ("str", "int", "bool", "ser"):
        return "." + k
    if k in ("list", "dict"):
        return f"(.{k} {lshape(sh[1])})"
    if k == "pair":
        return f"(.pair {lshape(sh[1])} {lshape(sh[2])})"
    raise Unsupported(sh)


def lkind(kd) -> str:
    k = kd[0]
    if k in ("req", "opt"):
        return f".{k} {lshape(kd[1])}"
    if k in ("fileid", "entries"):
        return "." + k
    if k == "enum":
        return ".enum [" + ", ".join(lstr(x) for x in kd[1]) + "]"
    if k in ("nodes", "node"):
        return f".{k} {lstr(kd[1])}"
    raise Unsupported(kd)


def render(rows) -> str:
    out = [
        "import SnootyVerif.Model.Schema",
        "/-! GENERATED by harness/impl/c04schema.py from snooty/n.py (+ parser._DefinitionListTerm). Do not edit. -/",
        "namespace SnootyVerif.Gen",
        "open SnootyVerif.Schema",
        "",
        "def schema : Schema := { classes := [",
    ]
    items = []
    for r in rows:
        fl = ", ".join(f"({lstr(f)}, {lkind(k)})" for f, k in r["fields"])
        items.append(
            "  { name := %s, tag := %s, mro := [%s],\n    fields := [%s],\n    oneOf := [%s], internal := %s }" % (
                lstr(r["name"]), lstr(r["tag"]), ", ".join(lstr(m) for m in r["mro"]), fl,
                ", ".join(lstr(x) for x in r["oneOf"]), "true" if r["internal"] else "false"))
    out.append(",\n".join(items))
    out += ["] }", "", "end SnootyVerif.Gen", ""]
    return "\n".join(out)


def write(path) -> bool:
    text = render(extract(strict=True))
    if path.exists() and path.read_text() == text:
        return False
    path.parent.mkdir(parents=True, exist_ok=True)
    path.write_text(text)
    return True
