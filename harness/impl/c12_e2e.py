"""C12 helper: drive a REAL snooty Project through an edit history and compare with clean builds.

A history case is
    {"files": {relpath-under-project-root: text | {"hex": ...}},
     "ops":   [ {"op": "update", "path": source-relative fileid, "text": ..., "via": "disk" | "buffer"}
              | {"op": "create", "path": ..., "text": ...}
              | {"op": "delete", "path": ...}
              | {"op": "postprocess"} ]}
After every `postprocess` op and after the last op the incremental project's next postprocessing
result (pages, metadata, per-file diagnostics) is compared with a FRESH Project opened on a copy of
the directory holding the current contents (editor buffers written out: the environment the user sees).
"""
from __future__ import annotations

import hashlib
import json
import os
import pickle
import shutil
import tempfile
from pathlib import Path
from typing import Any, Dict, List, Optional, Tuple

from snooty.diagnostics import Diagnostic
from snooty.n import FileId
from snooty.parser import Project
from snooty.parser import ProjectBackend

WORKERS = 1


class Recorder(ProjectBackend):
    """records what a frontend would be handed"""

    def __init__(self) -> None:
        self.set_diags: Dict[str, list] = {}
        self.deleted: List[str] = []

    def on_progress(self, progress, total, message):
        pass

    def on_diagnostics(self, path, diagnostics):
        pass

    def set_diagnostics(self, path, diagnostics):
        self.set_diags[path.as_posix()] = [diag_key(d) for d in diagnostics]

    def on_update(self, prefix, build_identifiers, page_id, page):
        pass

    def on_update_metadata(self, prefix, build_identifiers, field):
        pass

    def on_delete(self, page_id, build_identifiers):
        self.deleted.append(page_id.as_posix())

    def flush(self):
        pass


def diag_key(d: Diagnostic) -> list:
    start = d.start[0] if isinstance(d.start, tuple) else d.start
    return [type(d).__name__, int(start), str(d.message)]


def scrub(x: Any, root: str) -> Any:
    """temp-dir names out of messages / metadata"""
    if isinstance(x, str):
        return x.replace(root, "<ROOT>")
    if isinstance(x, bytes):
        return {"bytes": hashlib.sha1(x).hexdigest()}
    if isinstance(x, dict):
        return {str(k): scrub(v, root) for k, v in x.items()}
    if isinstance(x, (list, tuple)):
        return [scrub(v, root) for v in x]
    if isinstance(x, (int, bool)) or x is None:
        return x
    if isinstance(x, float):
        return repr(x)
    return scrub(repr(x), root)


def write_files(root: Path, files: Dict[str, Any]) -> None:
    for rel, content in files.items():
        p = root / rel
        p.parent.mkdir(parents=True, exist_ok=True)
        if isinstance(content, dict):
            p.write_bytes(bytes.fromhex(content["hex"]))
        else:
            p.write_text(content, encoding="utf-8")


def observe(project: Project, backend: Recorder, root: Path) -> dict:
    """what the next postprocessing run delivers"""
    backend.set_diags = {}
    result = project._project.postprocess()
    rs = str(root)
    rs_real = os.path.realpath(rs)
    pages = {}
    for fid, page in result.pages.items():
        ser = page.ast.serialize()
        blob = json.dumps(scrub(ser, rs), sort_keys=True, ensure_ascii=False)
        assets = sorted(a.key for a in page.static_assets)
        facets = repr(page.facets)
        pages[fid.as_posix()] = hashlib.sha1((blob + "|" + repr(assets) + "|" + facets).encode()).hexdigest()[:16]
    meta = scrub(result.metadata, rs)
    # `build()` adds the inventory to the static files of the result it just computed; `postprocess()` alone never does.
    # That is a difference between the two entry points, not between incremental and clean state: leave it out.
    if isinstance(meta.get("static_files"), dict):
        meta["static_files"] = {k: v for k, v in meta["static_files"].items() if k != "objects.inv"}
    meta_blob = json.dumps(meta, sort_keys=True, ensure_ascii=False)
    diags = {}
    for k, v in backend.set_diags.items():
        if v:
            diags[k] = sorted([[c, l, m.replace(rs_real, "<ROOT>").replace(rs, "<ROOT>")] for c, l, m in v])
    return {"pages": pages, "meta": hashlib.sha1(meta_blob.encode()).hexdigest()[:16], "meta_full": meta, "diags": diags}


def store_snapshot(project: Project) -> Tuple[Dict[str, list], bytes]:
    """(key -> [source fileid, hash of the stored parse result, files the parse recorded as read]),
    pickle of the stored parse results"""
    db = project._project.pages
    cfg = project._project.config
    with db._lock:
        snap = {}
        for k in sorted(db._parsed):
            page, src, diags = db._parsed[k]
            blob = json.dumps(page.ast.serialize(), sort_keys=True, ensure_ascii=False) + "|" + page.source
            deps = set(d.as_posix() for d in (page.dependencies.dependencies or {}))
            deps |= set(cfg.get_fileid(a.path).as_posix() for a in page.static_assets)
            snap[k.as_posix()] = [src.as_posix(), hashlib.sha1(blob.encode()).hexdigest()[:16], sorted(deps)]
        def rest(page):
            # every other field of the stored Page in a canonical form (assets load their bytes lazily: identify them by file)
            return (page.fileid, page.output_filename, page.blake2b,
                    sorted((a.fileid.as_posix(), a.key, bool(a.upload)) for a in page.static_assets),
                    sorted((str(k2), str(v2)) for k2, v2 in (page.dependencies.dependencies or {}).items()),
                    len(page.pending_tasks), repr(page.facets), page.category)
        raw = pickle.dumps([(k, db._parsed[k][0].ast, db._parsed[k][0].source, db._parsed[k][1], [diag_key(d) for d in db._parsed[k][2]],
                             rest(db._parsed[k][0]))
                            for k in sorted(db._parsed)])
    return snap, raw


def env_hashes(envd: Path) -> Dict[str, str]:
    src = envd / "source"
    out = {}
    for f in sorted(src.rglob("*")):
        if f.is_file():
            out[f.relative_to(src).as_posix()] = hashlib.sha1(f.read_bytes()).hexdigest()[:16]
    return out


def fresh_observation_here(env_root: Path, want_store: bool = False) -> dict:
    """open + build a copy of env_root from scratch"""
    tmp = Path(tempfile.mkdtemp(prefix=f"verif-c12f-{os.getpid()}-"))
    try:
        root = tmp / "p"
        shutil.copytree(env_root, root)
        backend = Recorder()
        project = Project(root, backend, {})
        project.build(max_workers=WORKERS)
        obs = observe(project, backend, root)
        if want_store:
            obs["store"] = store_snapshot(project)[0]
        return obs
    finally:
        shutil.rmtree(tmp, ignore_errors=True)


class CleanRoom:
    """Clean reference builds in processes of their own.

    A clean build is what a newly started `snooty build` delivers. Run inside the process that holds the open project - or that
    ran the previous reference build - it would share every module-level table of the implementation (memos, registries, caches)
    with the history under test, and a result remembered there from an earlier state would show up on BOTH sides of the comparison.
    So a helper process is forked before the history starts (it never builds anything itself), and forks one short-lived child
    per reference build; the child sends the observation back through a pipe. Any failure of the plumbing falls back to a build
    in the calling process (the former behaviour)."""

    def __init__(self) -> None:
        self.pid = None
        if os.environ.get("VERIF_C12_INPROC"):
            return
        try:
            req_r, req_w = os.pipe()
            res_r, res_w = os.pipe()
            pid = os.fork()
        except OSError:
            return
        if pid == 0:
            try:
                os.close(req_w)
                os.close(res_r)
                self._serve(req_r, res_w)
            finally:
                os._exit(0)
        os.close(req_r)
        os.close(res_w)
        self.pid, self.req_w, self.res_r = pid, req_w, res_r

    @staticmethod
    def _read(fd: int, n: int) -> bytes:
        buf = b""
        while len(buf) < n:
            chunk = os.read(fd, n - len(buf))
            if not chunk:
                raise EOFError
            buf += chunk
        return buf

    @classmethod
    def _recv(cls, fd: int) -> Any:
        n = int.from_bytes(cls._read(fd, 8), "big")
        return pickle.loads(cls._read(fd, n))

    @staticmethod
    def _send(fd: int, obj: Any) -> None:
        data = pickle.dumps(obj)
        data = len(data).to_bytes(8, "big") + data
        while data:
            data = data[os.write(fd, data):]

    def _serve(self, req_r: int, res_w: int) -> None:
        while True:
            try:
                env_root, want_store = self._recv(req_r)
            except EOFError:
                return
            kid = os.fork()
            if kid == 0:
                code = 1
                try:
                    try:
                        msg = ("ok", fresh_observation_here(Path(env_root), want_store))
                    except Exception as e:
                        try:
                            pickle.dumps(e)
                            msg = ("exc", e)
                        except Exception:
                            msg = ("exc", RuntimeError(f"{type(e).__name__}: {e}"))
                    self._send(res_w, msg)
                    code = 0
                finally:
                    os._exit(code)
            _, status = os.waitpid(kid, 0)
            if status != 0:
                self._send(res_w, ("down", status))

    def observe(self, env_root: Path, want_store: bool = False) -> dict:
        if self.pid is not None:
            try:
                import select
                self._send(self.req_w, (str(env_root), want_store))
                ready, _, _ = select.select([self.res_r], [], [], 600)
                if ready:
                    tag, val = self._recv(self.res_r)
                    if tag == "ok":
                        self.served = getattr(self, "served", 0) + 1
                        return val
                    if tag == "exc":
                        raise val
            except (OSError, EOFError, pickle.PickleError):
                pass
            self.close()
        return fresh_observation_here(env_root, want_store)

    def close(self) -> None:
        if self.pid is None:
            return
        pid, self.pid = self.pid, None
        for fd in (self.req_w, self.res_r):
            try:
                os.close(fd)
            except OSError:
                pass
        try:
            import signal
            os.kill(pid, signal.SIGKILL)
        except OSError:
            pass
        try:
            os.waitpid(pid, 0)
        except OSError:
            pass


_ROOM: Optional[CleanRoom] = None


def fresh_observation(env_root: Path, want_store: bool = False) -> dict:
    """the clean reference build: in a process of its own while a history runs (see CleanRoom), else in this one"""
    if _ROOM is not None:
        return _ROOM.observe(env_root, want_store)
    return fresh_observation_here(env_root, want_store)


def diff_obs(inc: dict, fresh: dict) -> List[dict]:
    """every difference between what the open project delivers and the clean build"""
    out = []
    for fid in sorted(set(inc["pages"]) | set(fresh["pages"])):
        a, b = inc["pages"].get(fid), fresh["pages"].get(fid)
        if a != b:
            kind = "page-extra" if b is None else "page-missing" if a is None else "page-differs"
            out.append({"kind": kind, "file": fid})
    for fid in sorted(set(inc["diags"]) | set(fresh["diags"])):
        a, b = inc["diags"].get(fid, []), fresh["diags"].get(fid, [])
        if a != b:
            # multiset difference: a second copy of a diagnostic the clean build reports once is an extra one
            rest = list(b)
            extra = []
            for x in a:
                if x in rest:
                    rest.remove(x)
                else:
                    extra.append(x)
            missing = rest
            out.append({"kind": "diagnostics", "file": fid, "stale_or_extra": extra[:4], "missing": missing[:4],
                        "n": [len(a), len(b)]})
    if inc["meta"] != fresh["meta"]:
        keys = sorted(k for k in set(inc["meta_full"]) | set(fresh["meta_full"]) if inc["meta_full"].get(k) != fresh["meta_full"].get(k))
        out.append({"kind": "metadata", "fields": keys})
    return out


def run_history(case: dict, want_store: bool = False, alias_probe: bool = True) -> dict:
    """returns {"checks": [ {after: n_ops_applied, diff: None|{...}} ], "exc": None | {...}, "alias": None | str, "stores": [...]}"""
    global _ROOM
    tmp = Path(tempfile.mkdtemp(prefix=f"verif-c12-{os.getpid()}-"))
    out: Dict[str, Any] = {"checks": [], "exc": None, "alias": None, "stores": [], "repeat": None}
    room = _ROOM = CleanRoom()   # forked before the project under test is opened
    try:
        root = tmp / "inc"       # the directory the open project watches (real disk)
        envd = tmp / "env"       # disk overlaid with editor buffers = the contents the user sees
        root.mkdir()
        write_files(root, case["files"])
        shutil.copytree(root, envd)
        backend = Recorder()
        try:
            project = Project(root, backend, {})
            project.build(max_workers=WORKERS)
        except Exception as e:
            # the project cannot even be opened and built once: there is no open project whose history could be compared with anything
            out["open_raised"] = f"{type(e).__name__}: {e}"[:200]
            return out
        if want_store:
            out["stores"].append({"after": 0, "inc": store_snapshot(project)[0], "fresh": fresh_observation(envd, True)["store"], "env": env_hashes(envd)})
        ops = case["ops"]

        def check(after: int) -> bool:
            if alias_probe:
                before = store_snapshot(project)[1]
            obs = observe(project, backend, root)
            if alias_probe:
                if store_snapshot(project)[1] != before:
                    out["alias"] = f"stored parse results changed during postprocess after {after} ops"
                again = observe(project, backend, root)
                if (again["pages"], again["meta"], again["diags"]) != (obs["pages"], obs["meta"], obs["diags"]):
                    out["repeat"] = f"re-running postprocess without changes after {after} ops gave a different result"
            fresh = fresh_observation(envd)
            d = diff_obs(obs, fresh)
            out["checks"].append({"after": after, "diffs": d, "n_pages": len(obs["pages"]),
                                  "n_diag_files": len(obs["diags"])})
            return not d

        for i, op in enumerate(ops):
            kind = op["op"]
            try:
                if kind == "postprocess":
                    check(i + 1)
                    continue
                if kind == "build":
                    # a full rebuild of the open project (files are read from disk): whatever the updates before it left behind
                    project.build(1)
                    continue
                fid = FileId(op["path"])
                disk = root / "source" / op["path"]
                envp = envd / "source" / op["path"]
                if kind in ("update", "create"):
                    via = op.get("via", "disk")
                    envp.parent.mkdir(parents=True, exist_ok=True)
                    if isinstance(op["text"], dict):
                        envp.write_bytes(bytes.fromhex(op["text"]["hex"]))
                    else:
                        envp.write_text(op["text"], encoding="utf-8")
                    if via == "buffer":
                        project.update(fid, op["text"])
                    else:
                        disk.parent.mkdir(parents=True, exist_ok=True)
                        shutil.copyfile(envp, disk)
                        project.update(fid)
                elif kind == "delete":
                    if disk.exists():
                        disk.unlink()
                    if envp.exists():
                        envp.unlink()
                    project.delete(fid)
                else:
                    raise ValueError(kind)
            except Exception as e:   # an operation that raises is lost (the language server logs it): record, continue
                import traceback
                tb = traceback.extract_tb(e.__traceback__)
                where = next((f"{Path(f.filename).name}:{f.name}" for f in reversed(tb) if "/snooty/" in f.filename), "?")
                if out["exc"] is None:
                    out["exc"] = {"after": i, "op": kind, "type": type(e).__name__, "where": where, "msg": str(e)[:200]}
            if want_store and kind != "postprocess":
                out["stores"].append({"after": i + 1, "inc": store_snapshot(project)[0], "fresh": fresh_observation(envd, True)["store"], "env": env_hashes(envd)})
        if not ops or ops[-1]["op"] != "postprocess":
            try:
                check(len(ops))
            except Exception as e:
                if out["exc"] is None:
                    out["exc"] = {"after": len(ops), "op": "postprocess", "type": type(e).__name__, "where": "?", "msg": str(e)[:200]}
        return out
    finally:
        out["clean_room"] = getattr(room, "served", 0)
        room.close()
        if _ROOM is room:
            _ROOM = None
        shutil.rmtree(tmp, ignore_errors=True)
