"""Records, on the REAL visitor, what `Model/Visitor.lean` abstracts: for every docutils node the walk visits, how many AST
nodes `dispatch_visit` pushed and how it left, and for every `dispatch_departure` which node was popped and whether it was
attached to the new top (as a child / as the term) or dropped.

One recording per visitor INSTANCE (the page visitor, and the child visitors `handle_directive` creates to walk a directive
argument), because each has its own stack.

node = [id, class, pushes, exit, AST kind of the pushed node, children]     (the shape `c01.visit` of the driver reads)
"""
from typing import Any, Dict, List

from snooty import n
from snooty import parser as sparser
from snooty.parser import InlineJSONVisitor, JSONVisitor
from snooty.tinydocutils import nodes as dn

from impl import c01run


def akind(obj) -> str:
    if isinstance(obj, sparser._DefinitionListTerm):
        return "term"
    if isinstance(obj, n.DefinitionListItem):
        return "dlItem"
    if isinstance(obj, sparser.NO_CHILDREN):
        return "noChildren"
    if isinstance(obj, n.Parent):
        return "parent"
    return "leaf"


class Recorder:
    def __init__(self):
        self.walks: Dict[int, Dict[str, Any]] = {}
        self.keep: List[Any] = []   # keeps visitors / nodes alive so that id() stays unique
        self.saved = {}

    def walk_of(self, visitor):
        w = self.walks.get(id(visitor))
        if w is None:
            w = {"inline": isinstance(visitor, InlineJSONVisitor), "root": None, "by_node": {}, "ast_id": {}, "next": 0,
                 "events": [], "exc": None, "subst_def_empty_names": 0}
            self.walks[id(visitor)] = w
            self.keep.append(visitor)
        return w

    def __enter__(self):
        rec = self
        for cls in (JSONVisitor, InlineJSONVisitor):
            for meth in ("dispatch_visit", "dispatch_departure"):
                if meth in cls.__dict__:
                    self.saved[(cls, meth)] = cls.__dict__[meth]

        def make_visit(orig):
            def dispatch_visit(self, node):
                w = rec.walk_of(self)
                if id(node) in w["by_node"]:
                    return orig(self, node)  # InlineJSONVisitor delegating to JSONVisitor: already being recorded
                rec.keep.append(node)
                before = len(self.state)
                entry = [w["next"], c01run.qual(type(node)), 0, "normal", "parent", []]
                w["next"] += 1
                w["by_node"][id(node)] = entry
                parent = w["by_node"].get(id(node.parent)) if node.parent is not None else None
                if parent is None:
                    if w["root"] is None:
                        w["root"] = entry
                    else:
                        w.setdefault("extra_roots", []).append(entry)
                else:
                    parent[5].append(entry)
                if isinstance(node, dn.substitution_definition) and not node["names"]:
                    w["subst_def_empty_names"] += 1
                exit_ = "normal"
                try:
                    orig(self, node)
                except dn.SkipNode:
                    exit_ = "skipNode"
                    raise
                except dn.SkipDeparture:
                    exit_ = "skipDeparture"
                    raise
                except dn.SkipChildren:
                    exit_ = "skipChildren"
                    raise
                except BaseException as e:
                    exit_ = "raise:" + type(e).__name__
                    raise
                finally:
                    pushed = self.state[before:]
                    entry[2] = max(0, len(self.state) - before)
                    entry[3] = exit_
                    if pushed:
                        entry[4] = akind(pushed[-1])
                        for obj in pushed:
                            w["ast_id"][id(obj)] = entry[0]
                            rec.keep.append(obj)
            return dispatch_visit

        def make_depart(orig):
            def dispatch_departure(self, node):
                w = rec.walk_of(self)
                if w.get("in_depart"):
                    return orig(self, node)
                w["in_depart"] = True
                before = list(self.state)
                try:
                    orig(self, node)
                finally:
                    w["in_depart"] = False
                    after = self.state
                    if len(after) == len(before) - 1 and before:
                        popped, top = before[-1], (after[-1] if after else None)
                        pid = w["ast_id"].get(id(popped))
                        tid = w["ast_id"].get(id(top)) if top is not None else None
                        if top is not None and getattr(top, "term", None) is getattr(popped, "children", object()):
                            how = "term"
                        elif top is not None and isinstance(getattr(top, "children", None), list) and top.children and top.children[-1] is popped:
                            how = "child"
                        else:
                            how = "drop"
                        w["events"].append([how, pid, tid])
                    elif len(after) != len(before):
                        w["events"].append(["odd", len(before), len(after)])
            return dispatch_departure
        for (cls, meth), orig in self.saved.items():
            setattr(cls, meth, make_visit(orig) if meth == "dispatch_visit" else make_depart(orig))
        return self

    def __exit__(self, *a):
        for (cls, meth), orig in self.saved.items():
            setattr(cls, meth, orig)
        return False

    def results(self):
        out = []
        for w in self.walks.values():
            if w["root"] is None:
                continue
            # the tree the real attach / term / drop events build
            nodes: Dict[int, Dict[str, Any]] = {}

            def nd(i):
                return nodes.setdefault(i, {"i": i, "t": [], "c": []})
            odd = []
            for how, a, b in w["events"]:
                if how == "child":
                    nd(b)["c"].append(nd(a))
                elif how == "term":
                    nd(b)["t"] = nd(a)["c"]
                elif how == "odd":
                    odd.append([a, b])
            out.append({"inline": w["inline"], "tree": w["root"], "built": nd(w["root"][0]), "odd": odd,
                        "extra_roots": len(w.get("extra_roots", [])), "subst_def_empty_names": w["subst_def_empty_names"],
                        "nodes": w["next"]})
        return out


def record(case: dict) -> dict:
    """parse case["text"] with the real parser under the recorder"""
    from snooty import rstparser
    from snooty.n import FileId
    from snooty.parser import parse_rst
    out: Dict[str, Any] = {"exc": None, "walks": []}
    rec = Recorder()
    cfg = c01run.config(case)
    try:
        with rec:
            mode = case.get("mode", "page")
            if mode == "page":
                parser = rstparser.Parser(cfg, JSONVisitor)
                res = parse_rst(parser, FileId("test.txt"), case["text"])
                for page, diags in res:
                    page.finish(diags)
            else:
                from snooty.page import Page
                from snooty.parser import EmbeddedRstParser
                fileid = FileId("test.txt")
                page = Page.create(fileid, None, "", n.Root((0,), [], fileid, {}))
                diags: list = []
                emb = EmbeddedRstParser(cfg, page, diags)
                if mode == "block":
                    emb.parse_block(case["text"], 0)
                else:
                    emb.parse_inline(case["text"], 0)
    except Exception as e:
        out["exc"] = type(e).__name__ + ": " + str(e)[:120]
    out["walks"] = rec.results()
    return out


def correspondence(n_docs: int, seed: int):
    """records n_docs grammar-generated documents on the real visitor, runs the Lean model on the recorded walks and returns
    (problems, stats)"""
    import json
    import random
    import core
    from impl import c01gen
    c01run.root()
    rng = random.Random(f"c01visit:{seed}")
    recs, reqs = [], []
    stats = {"documents": 0, "walks": 0, "inline_walks": 0, "nodes": 0, "parse_raised": 0, "exit_kinds": {}, "push_counts": {},
             "term_events": 0, "drop_events": 0, "not_plain": 0}
    for i in range(n_docs):
        g = c01gen.Gen(rng)
        r = rng.random()
        text = g.doc() if r < 0.6 else (g.deep() if r < 0.75 else c01gen.mutate(rng, g.doc()))
        text = "".join(c for c in text if not 0xD800 <= ord(c) <= 0xDFFF)
        case = {"text": text, "domain": rng.choice([None, None, "mongodb", "std"]), "mode": rng.choice(["page"] * 5 + ["block", "inline", "inline"])}
        # in a child that can be killed: a parse that never comes back (totality is the business of the doc cases) must not take
        # the whole check with it
        ok, out = core.isolated_call(record, case, 40.0)
        if not ok:
            out = {"exc": "killed: no answer within 40 s", "walks": []}
            stats["parse_killed"] = stats.get("parse_killed", 0) + 1
            if stats["parse_killed"] >= 3:
                break
        stats["documents"] += 1
        if out["exc"]:
            stats["parse_raised"] += 1   # totality is the business of the doc cases; the walks recorded so far are still compared
        for w in out["walks"]:
            recs.append((case, w))
            reqs.append({"op": "c01.visit", "inline": w["inline"], "tree": w["tree"]})
    resp = core.run_driver(reqs) if reqs else []
    problems = []

    def count(node):
        stats["nodes"] += 1
        stats["exit_kinds"][node[3]] = stats["exit_kinds"].get(node[3], 0) + 1
        stats["push_counts"][str(node[2])] = stats["push_counts"].get(str(node[2]), 0) + 1
        for c in node[5]:
            count(c)

    def terms(t):
        return (1 if t["t"] else 0) + sum(terms(c) for c in t["c"]) + sum(terms(c) for c in t["t"])
    for (case, w), m in zip(recs, resp):
        stats["walks"] += 1
        stats["inline_walks"] += 1 if w["inline"] else 0
        count(w["tree"])
        if "error" in m:
            problems.append(f"driver: {m['error']}")
            continue
        stats["term_events"] += terms(w["built"])
        if not m.get("plain"):
            stats["not_plain"] += 1
        where = f"(mode {case['mode']}, domain {case['domain']}, text {case['text'][:120]!r})"
        if m.get("unlisted"):
            problems.append(f"outcome of dispatch_visit not among the translated paths of its branch: {m['unlisted'][:3]} {where}")
        elif not m.get("balanced"):
            problems.append(f"a real walk had an unpaired outcome (hypothesis `balanced` of visitor_stack_spec) {where}")
        elif not m.get("termsOk"):
            problems.append(f"a term was handed to something that is not a definition list item (hypothesis `termsOk`) {where}")
        elif w["odd"] or w["extra_roots"]:
            problems.append(f"the stack changed by other than one pop in a departure / a second root appeared: {w['odd'][:2]} {w['extra_roots']} {where}")
        elif w["subst_def_empty_names"]:
            problems.append(f"a substitution_definition node without a name reached the visitor (justification of the IndexError path) {where}")
        elif "ok" not in m or m["ok"] != w["built"]:
            problems.append(f"model walk {json.dumps(m.get('ok', m.get('err')))[:200]} != tree built by the real visitor {json.dumps(w['built'])[:200]} {where}")
        elif m["ok"] != m.get("spec"):
            problems.append(f"model walk differs from its stack-free specification although the hypotheses hold (theorem visitor_stack_spec contradicted) {where}")
    return problems, stats
