"""C02, disk level: whole projects on disk (snooty.toml, pages, includes, giza YAML, facets.toml at several levels - well-formed
and malformed -, nested projects, odd files) built with the real `Project(...).build()`. Any exception out of the build is a
violation of totality; `where` names the snooty function it came from."""
import os
import shutil
import tempfile
import traceback
from pathlib import Path
from typing import Any, Dict

from snooty.diagnostics import Diagnostic
from snooty.n import FileId
from snooty.parser import Project, ProjectBackend


class _Backend(ProjectBackend):
    def __init__(self) -> None:
        self.pages = 0
        self.diags: Dict[str, int] = {}

    def on_progress(self, progress, total, message):  # noqa
        pass

    def on_diagnostics(self, path, diagnostics):  # noqa
        self.diags[path.as_posix()] = self.diags.get(path.as_posix(), 0) + len(diagnostics)

    def set_diagnostics(self, path, diagnostics):  # noqa
        pass

    def on_update(self, prefix, build_identifiers, page_id, page):  # noqa
        self.pages += 1

    def on_update_metadata(self, prefix, build_identifiers, field):  # noqa
        pass

    def on_delete(self, page_id, build_identifiers):  # noqa
        pass

    def flush(self):  # noqa
        pass


FACETS = {
    "good": '[[facets]]\ncategory = "genre"\nvalue = "tutorial"\n',
    "good-sub": '[[facets]]\ncategory = "target_product"\nvalue = "atlas"\n\n  [[facets.sub_facets]]\n  category = "sub_product"\n  value = "charts"\n',
    "unknown-value": '[[facets]]\ncategory = "genre"\nvalue = "bogus"\n',
    "not-toml": "this is = not [ toml\n",
    "no-facets-key": "x = 1\n",
    "facets-not-a-list": "facets = 3\n",
    "entry-missing-value": '[[facets]]\ncategory = "genre"\n',
    "entry-extra-key": '[[facets]]\ncategory = "genre"\nvalue = "tutorial"\nzz = 1\n',
    "sub-facets-not-a-list": '[[facets]]\ncategory = "genre"\nvalue = "tutorial"\nsub_facets = 3\n',
    "empty": "",
    "not-utf8": b'[[facets]]\ncategory = "g\xff"\nvalue = "x"\n',
}


def add_disk_features(rng, files: Dict[str, Any]) -> Dict[str, Any]:
    tags = []
    if rng.random() < 0.7:
        k = rng.choice(sorted(FACETS))
        files["source/facets.toml"] = FACETS[k]
        tags.append("facets:" + k)
    if rng.random() < 0.3:
        k = rng.choice(sorted(FACETS))
        files["source/guide/facets.toml"] = FACETS[k]
        files.setdefault("source/guide/extra.txt", "Extra\n=====\n\ntext\n")
        tags.append("facets-sub:" + k)
    if rng.random() < 0.4:
        # a nested project: its files are not pages of this project
        files["source/nested/snooty.toml"] = 'name = "nested"\n'
        files["source/nested/source/index.txt"] = "Nested\n======\n"
        files["source/nested/page.txt"] = "P\n=\n"
        tags.append("nested-project")
    if rng.random() < 0.2:
        files["source/empty.txt"] = ""
        tags.append("empty-page")
    if rng.random() < 0.15:
        files["source/latin1.txt"] = b"Caf\xe9\n====\n\ntext\n"
        tags.append("non-utf8-page")
    if rng.random() < 0.15:
        files["source/dir.txt/inner.txt"] = "Inner\n=====\n"
        tags.append("directory-named-like-a-page")
    if rng.random() < 0.15:
        files["source/includes/" + rng.choice(["steps-broken.yaml", "extracts-broken.yaml"])] = rng.choice([
            "title: x\n  bad: [\n", "- 1\n- 2\n", "", "ref: a\n---\nref: a\n...\n", b"\xff\xfe",
            "ref: a\ncontent: 2001-13-45\n", "ref: a\ncontent: !!int abc\n", "ref: a\ncontent: 2001-12-14\n", "ref: a\ncontent: !!binary no!!\n",
            "ref: a\ncontent: !!set {a, b}\n", "title: .inf\nref: .nan\nstepnum: 1e400\ncontent: x\n", "ref: &a [*a]\n", "? [a]\n: b\n"])
        tags.append("broken-yaml")
    if rng.random() < 0.1 and isinstance(files.get("snooty.toml"), str) and files["snooty.toml"].startswith('name = "verif"'):
        files["snooty.toml"] = files["snooty.toml"].replace('name = "verif"', rng.choice(['name = "two\\nlines"', 'name = ""', 'name = " "', 'name = "a/b"']), 1)
        tags.append("odd-project-name")
    return {"tags": tags}


def write(root: Path, files: Dict[str, Any]) -> None:
    for rel, data in sorted(files.items()):
        p = root / rel
        p.parent.mkdir(parents=True, exist_ok=True)
        if isinstance(data, bytes):
            p.write_bytes(data)
        else:
            p.write_text(data, encoding="utf-8")


def build(files: Dict[str, Any]) -> Dict[str, Any]:
    tmp = Path(tempfile.mkdtemp(prefix=f"verif-c02disk-{os.getpid()}-"))
    try:
        write(tmp, files)
        backend = _Backend()
        try:
            from snooty.parser import ProjectLoadError
            try:
                project = Project(tmp, backend, {}, "branch")
            except ProjectLoadError:
                return {"exc": None, "refused": True, "pages": 0, "diagnostics": 0}   # the documented way to refuse a bad snooty.toml (C16)
            project.build(max_workers=1)
        except Exception as e:
            tb = traceback.extract_tb(e.__traceback__)
            where = next((f"{Path(f.filename).name}:{f.name}" for f in reversed(tb) if "/snooty/" in f.filename), "?")
            return {"exc": type(e).__name__, "where": where, "msg": str(e).replace(str(tmp), "<root>")[:160]}
        return {"exc": None, "pages": backend.pages, "diagnostics": sum(backend.diags.values())}
    finally:
        shutil.rmtree(tmp, ignore_errors=True)
