"""C02, disk level: whole projects on disk (snooty.toml, pages, includes, giza YAML, facets.toml at several levels - well-formed
and malformed -, nested projects, odd files) built with the real `Project(...).build()`. Any exception out of the build is a
violation of totality; `where` names the snooty function it came from."""
import os
import shutil
import tempfile
import traceback
from pathlib import Path
from typing import Any, Dict

from snooty.diagnostics import Diagnostic
from snooty.n import FileId
from snooty.parser import Project, ProjectBackend


class _Backend(ProjectBackend):
    def __init__(self) -> None:
        self.pages = 0
        self.diags: Dict[str, int] = {}

    def on_progress(self, progress, total, message):  # noqa
        pass

    def on_diagnostics(self, path, diagnostics):  # noqa
        self.diags[path.as_posix()] = self.diags.get(path.as_posix(), 0) + len(diagnostics)

    def set_diagnostics(self, path, diagnostics):  # noqa
        pass

    def on_update(self, prefix, build_identifiers, page_id, page):  # noqa
        self.pages += 1

    def on_update_metadata(self, prefix, build_identifiers, field):  # noqa
        pass

    def on_delete(self, page_id, build_identifiers):  # noqa
        pass

    def flush(self):  # noqa
        pass


FACETS = {
    "good": '[[facets]]\ncategory = "genre"\nvalue = "tutorial"\n',
    "good-sub": '[[facets]]\ncategory = "target_product"\nvalue = "atlas"\n\n  [[facets.sub_facets]]\n  category = "sub_product"\n  value = "charts"\n',
    "unknown-value": '[[facets]]\ncategory = "genre"\nvalue = "bogus"\n',
    "not-toml": "this is = not [ toml\n",
    "no-facets-key": "x = 1\n",
    "facets-not-a-list": "facets = 3\n",
    "entry-missing-value": '[[facets]]\ncategory = "genre"\n',
    "entry-extra-key": '[[facets]]\ncategory = "genre"\nvalue = "tutorial"\nzz = 1\n',
    "sub-facets-not-a-list": '[[facets]]\ncategory = "genre"\nvalue = "tutorial"\nsub_facets = 3\n',
    "empty": "",
    "not-utf8": b'[[facets]]\ncategory = "g\xff"\nvalue = "x"\n',
}


DAMAGED_IMAGES = [
    b"RIFF\x10\x00\x00\x00WEBPVP8 \x00\x00", b"RIFF\x10\x00\x00\x00WEBPVP8L\x00", b"RIFF\x10\x00\x00\x00WEBPVP8X\x00\x00",
    b"II*\x00\x08\x00", b"MM\x00*\x00\x00", b"", b"\x89PNG\r\n\x1a\n\x00\x00", b"\xff\xd8\xff\xe0\x00", b"GIF89a\x01",
    b"\x00\x00\x01\x00\x01\x00", b"<svg", b"BM\x00\x00"]
CARD_URLS = ["/", ".", "./", "//", "..", "/nope", "/index", "/guide/", "", " ", "https://x.y", "#frag", "?q=1"]
SYMLINKS = ["source/dangling.txt", "source/includes/dangling.rst", "source/includes/steps-dangling.yaml", "source/images/dangling.png"]
ODD_NAMES = ['name = "two\\nlines"', 'name = ""', 'name = " "', 'name = "a/b"', 'name = ".."', 'name = "a\\\\b"']


def cards_page(urls):
    return "Cards\n=====\n\n.. card-group::\n   :columns: 3\n   :style: default\n\n" + "".join(
        f"   .. card::\n      :headline: H{i}\n      :url: {u}\n\n      text\n\n" for i, u in enumerate(urls))


def directed_projects():
    """one small project per variant of the odd-file features (the random stream combines them with generated projects)"""
    base = {"snooty.toml": 'name = "verif"\n', "source/index.txt": "Index\n=====\n\n.. toctree::\n\n   /cards\n\ntext\n"}
    out = []
    for img in DAMAGED_IMAGES:
        for d in ("figure", "image"):
            out.append(("damaged-image", dict(base, **{"source/images/damaged.png": img,
                                                       "source/index.txt": base["source/index.txt"] + f"\n.. {d}:: /images/damaged.png\n   :alt: damaged\n"})))
    for u in CARD_URLS:
        out.append(("card-urls", dict(base, **{"source/cards.txt": cards_page([u])})))
    for rel in SYMLINKS:
        out.append(("dangling-symlink", dict(base, **{rel: {"symlink": "nowhere.txt"},
                                                      "source/index.txt": base["source/index.txt"] + "\n.. include:: /includes/dangling.rst\n\n.. image:: /images/dangling.png\n   :alt: x\n"})))
    for rel in SYMLINKS:   # a link that names itself: a loop
        out.append(("dangling-symlink", dict(base, **{rel: {"symlink": rel.rsplit("/", 1)[-1]}})))
    for nm in ODD_NAMES:
        out.append(("odd-project-name", dict(base, **{"snooty.toml": nm + "\n"})))
    return out


def add_disk_features(rng, files: Dict[str, Any]) -> Dict[str, Any]:
    tags = []
    if rng.random() < 0.7:
        k = rng.choice(sorted(FACETS))
        files["source/facets.toml"] = FACETS[k]
        tags.append("facets:" + k)
    if rng.random() < 0.3:
        k = rng.choice(sorted(FACETS))
        files["source/guide/facets.toml"] = FACETS[k]
        files.setdefault("source/guide/extra.txt", "Extra\n=====\n\ntext\n")
        tags.append("facets-sub:" + k)
    if rng.random() < 0.4:
        # a nested project: its files are not pages of this project
        files["source/nested/snooty.toml"] = 'name = "nested"\n'
        files["source/nested/source/index.txt"] = "Nested\n======\n"
        files["source/nested/page.txt"] = "P\n=\n"
        tags.append("nested-project")
    if rng.random() < 0.2:
        files["source/empty.txt"] = ""
        tags.append("empty-page")
    if rng.random() < 0.15:
        files["source/latin1.txt"] = b"Caf\xe9\n====\n\ntext\n"
        tags.append("non-utf8-page")
    if rng.random() < 0.15:
        files["source/dir.txt/inner.txt"] = "Inner\n=====\n"
        tags.append("directory-named-like-a-page")
    if rng.random() < 0.15:
        files["source/includes/" + rng.choice(["steps-broken.yaml", "extracts-broken.yaml"])] = rng.choice([
            "title: x\n  bad: [\n", "- 1\n- 2\n", "", "ref: a\n---\nref: a\n...\n", b"\xff\xfe",
            "ref: a\ncontent: 2001-13-45\n", "ref: a\ncontent: !!int abc\n", "ref: a\ncontent: 2001-12-14\n", "ref: a\ncontent: !!binary no!!\n",
            "ref: a\ncontent: !!set {a, b}\n", "title: .inf\nref: .nan\nstepnum: 1e400\ncontent: x\n", "ref: &a [*a]\n", "? [a]\n: b\n"])
        tags.append("broken-yaml")
    if rng.random() < 0.12:
        # a source file that is listed but cannot be read: a dangling symbolic link
        rel = rng.choice(SYMLINKS)
        files[rel] = {"symlink": rng.choice(["nowhere.txt", "../../outside-the-project", rel.rsplit("/", 1)[-1]])}
        tags.append("dangling-symlink")
    if rng.random() < 0.15:
        # an image file that is damaged in a way the size sniffer does not expect
        files["source/images/damaged.png"] = rng.choice(DAMAGED_IMAGES)
        files["source/damaged-image-page.txt"] = ("Damaged\n=======\n\n.. " + rng.choice(["figure", "image"]) + ":: /images/damaged.png\n   :alt: damaged\n"
                                                  + rng.choice(["", "   :width: 10\n"]))
        tags.append("damaged-image")
    if rng.random() < 0.12:
        # card urls: the site root and urls without a file name
        files["source/cards.txt"] = cards_page([rng.choice(CARD_URLS) for _ in range(rng.randint(1, 3))])
        tags.append("card-urls")
    if rng.random() < 0.1 and isinstance(files.get("snooty.toml"), str) and files["snooty.toml"].startswith('name = "verif"'):
        files["snooty.toml"] = files["snooty.toml"].replace('name = "verif"', rng.choice(ODD_NAMES), 1)
        tags.append("odd-project-name")
    return {"tags": tags}


def write(root: Path, files: Dict[str, Any]) -> None:
    for rel, data in sorted(files.items()):
        p = root / rel
        p.parent.mkdir(parents=True, exist_ok=True)
        if isinstance(data, dict) and "hex" in data:
            p.write_bytes(bytes.fromhex(data["hex"]))   # a file that is not text (shared generator with C04)
        elif isinstance(data, dict):
            os.symlink(data["symlink"], p)
        elif isinstance(data, bytes):
            p.write_bytes(data)
        else:
            p.write_text(data, encoding="utf-8")


def build(files: Dict[str, Any]) -> Dict[str, Any]:
    tmp = Path(tempfile.mkdtemp(prefix=f"verif-c02disk-{os.getpid()}-"))
    try:
        write(tmp, files)
        backend = _Backend()
        try:
            from snooty.parser import ProjectLoadError
            try:
                project = Project(tmp, backend, {}, "branch")
            except ProjectLoadError:
                return {"exc": None, "refused": True, "pages": 0, "diagnostics": 0}   # the documented way to refuse a bad snooty.toml (C16)
            # the command line's `create-cache` sequence: look for a cache, build, save the cache (written inside the project root)
            project.load_cache()
            project.build(max_workers=1)
            project.update_cache(optimize=False)
        except Exception as e:
            tb = traceback.extract_tb(e.__traceback__)
            where = next((f"{Path(f.filename).name}:{f.name}" for f in reversed(tb) if "/snooty/" in f.filename), "?")
            return {"exc": type(e).__name__, "where": where, "msg": str(e).replace(str(tmp), "<root>")[:160]}
        return {"exc": None, "pages": backend.pages, "diagnostics": sum(backend.diags.values())}
    finally:
        shutil.rmtree(tmp, ignore_errors=True)
