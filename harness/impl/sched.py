"""Deterministic cooperative scheduler for replaying a schedule on real threads (C13).

Exactly one managed thread runs at a time.  Managed threads hand control back to the scheduler
(`park`) at instrumented points: acquisition / release of an instrumented lock, a poll of the
instrumented cancellation event (only when an injection is requested there), `Thread.join` of a
worker, and explicit gates in the injected postprocessor.  No sleeps: every hand-over is a semaphore,
the scheduler waits on a condition variable until no managed thread is running; a watchdog turns a
thread that neither parks nor finishes into `Hang`.
"""
import threading
import time
import types

_real_threading = threading


class Hang(Exception):
    pass


class TS:
    """scheduler-side record of one managed thread"""

    def __init__(self, name, kind):
        self.name = name
        self.kind = kind  # "mut" | "client" | "worker"
        self.go = threading.Semaphore(0)
        self.state = "new"  # running | parked | join | lockwait | done
        self.tag = None
        self.thread = None
        self.wait_for = None
        self.polls = 0
        self.reaped = False
        self.parent = None
        self.ready = None  # state "blocked": runnable again when ready() is true
        self.exit_clock = None

    def status(self):
        if self.state == "parked":
            return "park:" + ":".join(str(x) for x in self.tag)
        if self.state == "lockwait":
            return "lockwait:" + self.tag[1]
        return self.state


class Sched:
    def __init__(self, watchdog=20.0, mode="labels"):
        # mode "labels": yield points are the ones the model's labels need (driven by a schedule of labels);
        # mode "free": EVERY instrumented point of every managed thread is a yield point and the caller
        # picks any runnable thread at each step (free scheduling, independent of the model)
        self.mode = mode
        self.clock = 0
        self.nworkers = 0
        self.cv = threading.Condition()
        self.running = 0
        self.by_ident = {}
        self.all = []
        self.free = False
        self.watchdog = watchdog
        self.poll_spec = None  # (worker thread name, poll number) at which the worker parks
        self.runnable_waiters = []
        self.worker_of = {}  # client name -> worker TS

    # ---- thread side ----
    def current(self):
        return self.by_ident.get(threading.get_ident())

    def parks(self, ts, tag):
        if self.mode == "free":
            return True
        if ts.kind == "client":
            return tag[1] == "L"
        if ts.kind == "worker":
            return tag[1] == "db"
        return False

    def _yield(self, ts, state, tag):
        with self.cv:
            ts.state, ts.tag = state, tag
            self.running -= 1
            self.cv.notify_all()
        ts.go.acquire()

    def park(self, tag):
        ts = self.current()
        if ts is None or self.free:
            return
        self._yield(ts, "parked", tag)

    def _exit(self, ts):
        with self.cv:
            was_running = ts.state == "running"
            ts.state, ts.tag = "done", None
            ts.exit_clock = self.clock
            if was_running:
                self.running -= 1
            self.cv.notify_all()

    # ---- scheduler side ----
    def block_until(self, ready, tag):
        """thread side: give up the processor until ready() holds (checked by the scheduler)"""
        ts = self.current()
        if ts is None or self.free:
            return
        ts.ready = ready
        self._yield(ts, "blocked", tag)

    def runnable(self):
        out = []
        for t in self.all:
            if t.state == "parked":
                out.append(t)
            elif t.state == "join" and t.wait_for.state == "done":
                out.append(t)
            elif t.state == "blocked" and t.ready():
                out.append(t)
        return sorted(out, key=lambda t: t.name)

    def spawn(self, name, kind, fn):
        ts = TS(name, kind)

        def body():
            self.by_ident[threading.get_ident()] = ts
            try:
                if self.mode == "free":
                    self.park(("start",))
                fn()
            finally:
                self._exit(ts)

        th = _real_threading.Thread(target=body, daemon=True, name="verif-" + name)
        ts.thread = th
        with self.cv:
            ts.state = "running"
            self.running += 1
        self.all.append(ts)
        th.start()
        self.wait_quiet()
        return ts

    def resume(self, ts):
        with self.cv:
            if ts.state not in ("parked", "join", "lockwait", "blocked"):
                raise AssertionError(f"resume of {ts.name} in state {ts.state}")
            ts.state = "running"
            self.running += 1
        ts.go.release()
        self.wait_quiet()

    def wait_quiet(self):
        with self.cv:
            if not self.cv.wait_for(lambda: self.running == 0, self.watchdog):
                raise Hang("running=%d: %s" % (self.running, [(t.name, t.state, t.tag) for t in self.all if t.state == "running"]))
        for ts in self.all:
            if ts.state == "done" and not ts.reaped and ts.thread is not None:
                _real_threading.Thread.join(ts.thread, self.watchdog)
                if ts.thread.is_alive():
                    raise Hang(f"{ts.name} finished but its thread does not terminate")
                ts.reaped = True

    def drain_waiters(self):
        """threads that were blocked on an instrumented lock which has been released since: let them
        proceed, first come first served"""
        while self.runnable_waiters:
            ts = self.runnable_waiters.pop(0)
            if ts.state == "parked":
                self.resume(ts)

    def release_all(self, timeout=1.5):
        """abandon the schedule: let every managed thread run freely to its end"""
        with self.cv:
            self.free = True
            pending = [t for t in self.all if t.state in ("parked", "join", "lockwait", "blocked")]
            for t in pending:
                t.state = "running"
                self.running += 1
        for t in pending:
            t.go.release()
        alive = []
        deadline = time.monotonic() + timeout
        for t in list(self.all):
            if t.thread is not None:
                _real_threading.Thread.join(t.thread, max(0.0, deadline - time.monotonic()))
                if t.thread.is_alive():
                    alive.append(t.name)
        return alive


CURRENT = None  # the scheduler of the case being replayed (one case at a time per process)


class MThread(_real_threading.Thread):
    """what `snooty.util` gets as `threading.Thread` while a schedule is replayed"""

    def start(self):
        s = CURRENT
        parent = s.current() if s is not None else None
        if s is None or s.free or parent is None:
            self._ts = None
            return super().start()
        ts = TS("w:" + parent.name + (f"#{s.nworkers}" if s.mode == "free" else ""), "worker")
        s.nworkers += 1
        ts.thread = self
        ts.parent = parent
        self._ts = ts
        self._sched = s
        with s.cv:
            ts.state = "running"
            s.running += 1
        s.all.append(ts)
        s.worker_of[parent.name] = ts
        super().start()

    def run(self):
        ts = getattr(self, "_ts", None)
        if ts is None:
            return super().run()
        s = self._sched
        s.by_ident[threading.get_ident()] = ts
        try:
            if s.mode == "free":
                s.park(("start",))
            super().run()
        finally:
            s._exit(ts)

    def join(self, timeout=None):
        ts = getattr(self, "_ts", None)
        s = CURRENT
        caller = s.current() if s is not None else None
        if ts is None or caller is None or s.free:
            return super().join(timeout)
        caller.wait_for = ts
        s._yield(caller, "join", ("join", ts.name))
        return super().join(timeout)


class _ThreadingShim(types.ModuleType):
    def __getattr__(self, name):
        return getattr(_real_threading, name)


def threading_shim():
    m = _ThreadingShim("threading")
    m.Thread = MThread
    return m


class ILock:
    """stands in for a `threading.Lock`; acquisition and release are yield points"""

    def __init__(self, sched, name):
        self.sched = sched
        self.name = name
        self.real = _real_threading.Lock()
        self.waiters = []

    def acquire(self, blocking=True, timeout=-1):
        s = self.sched
        ts = s.current()
        if ts is None or s.free:
            return self.real.acquire(blocking, timeout)
        if s.parks(ts, ("acq", self.name)):
            s.park(("acq", self.name))
        while not self.real.acquire(False):
            if s.free:
                return self.real.acquire()
            self.waiters.append(ts)
            s._yield(ts, "lockwait", ("lockwait", self.name))
        return True

    def release(self):
        self.real.release()
        s = self.sched
        with s.cv:
            for w in self.waiters:
                if w.state == "lockwait":
                    w.state, w.tag = "parked", ("lockfree", self.name)
                    s.runnable_waiters.append(w)
            self.waiters = []
        ts = s.current()
        if ts is not None and not s.free and s.parks(ts, ("rel", self.name)):
            s.park(("rel", self.name))

    def locked(self):
        return self.real.locked()

    def __enter__(self):
        self.acquire()
        return self

    def __exit__(self, *a):
        self.release()
        return False


class IEvent:
    """stands in for the launcher's cancellation `threading.Event`; a poll by a worker can be made a
    yield point (used to land mutations in the middle of the copy loop)"""

    def __init__(self, sched):
        self.sched = sched
        self.real = _real_threading.Event()
        self.log = []

    def is_set(self):
        s = self.sched
        ts = s.current()
        if ts is not None and not s.free and s.mode == "free":
            s.park(("event", "is_set"))
        elif ts is not None and ts.kind == "worker" and not s.free:
            ts.polls += 1
            if s.poll_spec == (ts.name, ts.polls):
                s.park(("poll", ts.polls))
        return self.real.is_set()

    def set(self):
        s = self.sched
        if s.mode == "free" and s.current() is not None and not s.free:
            s.park(("event", "set"))
        self.log.append("set")
        self.real.set()

    def clear(self):
        s = self.sched
        if s.mode == "free" and s.current() is not None and not s.free:
            s.park(("event", "clear"))
        self.log.append("clear")
        self.real.clear()

    def wait(self, timeout=None):
        return self.real.wait(timeout)
