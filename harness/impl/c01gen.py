"""Grammar-based reStructuredText generator for C01 (parsing is total).

Produces texts from every block and inline construct the tinydocutils state machine recognises, every
directive / role / rstobject of rstspec.toml (read through `snooty.specparser.Spec.get()`) with
present / absent / ill-typed arguments, options and content, nesting up to 12, plus a mutation stream
(char / line deletions, duplications, indentation changes, truncation). All randomness from `rng`."""
from typing import Any, Dict, List

from snooty import specparser

MAX_DEPTH = 12
ADORN = "=-~^\"'`#*+.:_<>!$%&(),/;?@[\\]{|}"
WORDS = ["alpha", "beta", "gamma", "x", "foo bar", "Ünïcödé", "日本語", "a_b", "A", "i", "I", "v", "mdcc", "e.g.", "1", "0", "-", "*", "a\\b", "…"]
URIS = ["http://example.com", "https://x.y/a?b=c#d", "mailto:a@b.c", "ftp://h/", "http://[::1", "http://[x", "/relative", "file:///x", "a@b.c",
        "http://example.com/a_", "https://x.y/`z", "urn:isbn:1", "javascript:x", "http://", "//host/x", "#frag", "|proj|", ""]
NAMES = ["a", "b", "name", "Long Name", "a_b", "1", "CIT2002", "x-y", "`q`", "a:b", "_", "über"]
BULLETS = "-*+\u2022\u2023\u2043"
ILL = ["", " ", "x", "-1", "0", "1", "99999999999999999999", "1.5", "1e3", "true", "false", "True", "yes", "none", "10px", "5%", "10 px", "em", "١٢",
       "a b", "a, b", "1-", "-", "1-2", "2-1", "1,,2", "http://x", "http://[x", "/a/b.png", "../x", "\\", "`", "*", "|x|", "x_", ":", "::", "é", "\x7f",
       "2020-01-01", "2020-13-45", "left", "center", "LEFT", "warning", "%s", "%", "{+version+}", "{+nope+}", "<", "a <b>", "a <|p|>", "U+2014", "0x41 x", "U+110000", "&#x41;"]


def _spec_tables():
    spec = specparser.Spec.get()
    directives = []
    for name, d in spec.directive.items():
        if name.startswith("_"):
            continue
        directives.append({"name": name, "opts": sorted(d.options), "optspec": {k: _optkind(spec, v) for k, v in d.options.items()},
                           "req": sorted(d.required_options), "arg": d.argument_type is not None, "content": d.content_type or "",
                           "fields": [], "rstobject": False})
    for name, o in spec.rstobject.items():
        fields = [f if isinstance(f, str) else f[0] for f in (o.fields or [])]
        directives.append({"name": name, "opts": sorted(o.options), "optspec": {k: _optkind(spec, v) for k, v in o.options.items()},
                           "req": [], "arg": True, "content": "block", "fields": fields, "rstobject": True, "ttype": o.type.name})
    for t in spec.tabs:
        directives.append({"name": "tabs-" + t, "opts": ["hidden", "tabset"], "optspec": {}, "req": [], "arg": False, "content": "tabs", "fields": [], "rstobject": False})
    roles = sorted(set(spec.role) | set(spec.rstobject))
    enums = {k: list(v) for k, v in spec.enum.items()}
    misc = {"tabs": {k: [t.id for t in v] for k, v in spec.tabs.items()},
            "method": [o.id for v in spec.method_selector.values() for o in v],
            "wayfinding": [o.id for v in spec.wayfinding.values() for o in v],
            "composables": [(c.id, [o.id for o in c.options]) for c in spec.composables]}
    return directives, roles, enums, misc


def _optkind(spec, v):
    if isinstance(v, specparser.DirectiveOption):
        v = v.type
    if isinstance(v, list):
        return [_optkind(spec, x) for x in v]
    if isinstance(v, specparser.PrimitiveType):
        return v.name
    return "enum:" + str(v)


_TABLES = None


def tables():
    global _TABLES
    if _TABLES is None:
        _TABLES = _spec_tables()
    return _TABLES


def roman(n: int) -> str:
    n = min(n, 12000)
    out = ""
    for v, s in ((1000, "M"), (900, "CM"), (500, "D"), (400, "CD"), (100, "C"), (90, "XC"), (50, "L"), (40, "XL"), (10, "X"), (9, "IX"), (5, "V"), (4, "IV"), (1, "I")):
        while n >= v:
            out += s
            n -= v
    return out


class Gen:
    def __init__(self, rng, focus=None):
        self.r = rng
        self.directives, self.roles, self.enums, self.misc = tables()
        self.byname = {d["name"]: d for d in self.directives}
        self.focus = focus  # optional directive name to favour
        self.budget = 40  # blocks per document (keeps the expected size finite at nesting 12)

    # ------------------------------------------------------------------ helpers
    def ch(self, xs):
        return self.r.choice(xs)

    def p(self, x):
        return self.r.random() < x

    def word(self):
        return self.ch(WORDS)

    def ind(self, lines, prefix):
        return [(prefix + l) if l else l for l in lines]

    # ------------------------------------------------------------------ inline
    # call-like targets as they occur in driver documentation: long argument lists, call chains, a forgotten closing parenthesis,
    # deep or lopsided bracket nesting, long runs of one character class without the terminator a pattern might be waiting for
    CALLS = ['db.collection.updateMany({status: "A", qty: {$lt: 30}}, {$set: {size: "large"}}',
             'db.getSiblingDB("a_rather_long_database_name_for_reporting").runCommand',
             'db.coll.aggregate([{$match: {a: 1}}, {$group: {_id: "$b", n: {$sum: 1}}}])',
             'db.getCollection("orders").find({}).sort({a: 1}).limit(5)',
             "f(" + "a" * 60, "f(" * 40, "f(" * 30 + ")" * 29, "f(" + "(a)" * 30, "f(" + "a," * 40 + "b", "f" + "()" * 40 + "(",
             "f(" + " " * 60, "x" * 300 + "(", "f(a(b(c(d(e(g(h(i(j(k(l(m(n(o(p(q(r(s(t(u(v", "a <" + "b" * 80, "<" * 60 + "x", "~" + "a." * 60,
             "t <" + "f(" * 30 + ">"]

    def role(self):
        name = self.ch(self.roles) if self.p(0.9) else self.ch(["nope", "mongodb:nope", "zz:ref", ":", "std:", "py:meth", "ref", "doc", "icon", "icon-fa5", "guilabel", "abbr", "rfc"])
        if self.p(0.15) and ":" not in name:
            name = self.ch(["mongodb", "std", "py", "js", "zz", ""]) + ":" + name
        if name.endswith("doc") and self.p(0.7):
            body = self.ch(["/page", "page", "/page/", "Title </page>", "/a/../b", "", "http://x.y", "../../../x", "/index", "t <>", "/a#frag"])
        elif "icon" in name and self.p(0.7):
            body = self.ch(["check", "nope", "", "a b", "fa5-check"])
        else:
            t = self.ch(["x", "db.coll.find()", "--opt", "mongod --port", "a.b", "~a.b", "!a", "", " ", "a (b)", "a <b>", "a <b", "<b>", "a <>", "  <x>", "\\<x>", "x\\", "é", "%s", "%", "a`b",
                         "1", "RFC 1", "t <~a.b>", "t <!a>", "-", "--", "a  b", "a\\ b", "()", "a()", "a(b", "a.b.c(d, e)", "$x", "a <b> c"])
            body = t if self.p(0.9) else self.ch(self.CALLS)
        form = self.r.random()
        if form < 0.85:
            return f":{name}:`{body}`"
        if form < 0.93:
            return f"`{body}`:{name}:"
        return f":{name}:`{body}"

    def inline(self):
        k = self.r.randrange(36)
        w = self.word()
        if k < 6:
            return w
        if k == 6:
            return f"*{w}*"
        if k == 7:
            return f"**{w}**"
        if k == 8:
            return f"``{w}``"
        if k == 9:
            return f"`{w}`"
        if k in (10, 11, 12, 13):
            return self.role()
        if k == 14:
            return f"|{self.ch(NAMES + ['sub', 'nosub'])}|" + self.ch(["", "_", "__"])
        if k == 15:
            return f"{self.ch(NAMES)}_"
        if k == 16:
            return f"`{self.ch(NAMES)}`_"
        if k == 17:
            return f"{self.ch(NAMES)}__"
        if k == 18:
            return f"`{w} <{self.ch(URIS)}>`" + self.ch(["_", "__", ""])
        if k == 19:
            return f"`{w} <{self.ch(NAMES)}_>`" + self.ch(["_", "__"])
        if k == 20:
            return f"[{self.ch(['1', '#', '#' + self.ch(NAMES), '*', 'CIT2002', self.ch(NAMES), '99999999999999999999'])}]_"
        if k == 21:
            return f"_`{self.ch(NAMES)}`"
        if k == 22:
            return self.ch(URIS)
        if k == 23:
            return "\\" + self.ch("*`|_\\ :x")
        if k == 24:
            return self.ch(["*", "**", "`", "``", "|", "_", "__", "`_", "`__", "]_", "[", "::", ":", ":x:", "*x", "x*", "**x", "``x", "|x", "_`x", "<", ">", "`x <y`_", "`<x>`_", "`x <>`_"])
        if k == 25:
            return self.ch(["\u00a0", "\u200b", "\u0301", "\u202e", "\ufeff", "\t", "\x0b", "\x0c", "\x1f", "\x85", "\u2028", "\U0001f600", "\ufffd", "Ａ", "ß", "İ", "ǅ"])
        if k == 26:
            return self.ch(["{+version+}", "{+nope+}", "{+", "+}", "{+a b+}", "<<<<<<< HEAD", "=======", ">>>>>>> x"])
        if k == 27:
            return f"*{self.role()}*"
        if k == 28:
            return f"{w}:{self.ch(['ref', 'doc', 'x'])}:`{w}`"  # role without leading whitespace
        if k == 29:
            return f"(:{self.ch(self.roles)}:`{w}`)"
        if k == 30:
            return f"`{w}`{w}"
        if k == 31:
            # embedded-link forms at their edges: no link text, alias that is only an underscore / empty / blank / escaped
            return ("`" + self.ch(["", "", w, w + " ", " "]) + "<" + self.ch(["_", "_", "a_", "\\_", "", " ", "__", "a b_", "_ ", "x y", "<", "_>", "\\"]) + ">`"
                    + self.ch(["_", "_", "__"]))
        return w

    def text(self):
        return " ".join(self.inline() for _ in range(self.r.randint(1, 4)))

    # ------------------------------------------------------------------ blocks
    def block(self, depth) -> List[str]:
        """one block (list of lines, no trailing blank)"""
        self.budget -= 1
        if depth >= MAX_DEPTH or self.budget <= 0:
            return [self.text()]
        choices = [
            (10, self.paragraph), (5, self.section), (5, self.bullet_list), (6, self.enum_list), (4, self.definition_list), (4, self.field_list),
            (4, self.option_list), (3, self.line_block), (3, self.literal_block), (3, self.doctest), (3, self.simple_table), (3, self.grid_table),
            (3, self.footnote), (3, self.citation), (5, self.target), (4, self.substitution_def), (3, self.comment), (2, self.transition),
            (3, self.block_quote), (22, self.directive), (2, self.raw_explicit),
        ]
        tot = sum(w for w, _ in choices)
        x = self.r.random() * tot
        for w, f in choices:
            x -= w
            if x < 0:
                return f(depth)
        return self.paragraph(depth)

    def blocks(self, depth, lo=1, hi=3) -> List[str]:
        out: List[str] = []
        n = self.r.randint(lo, hi)
        if depth > 4:
            n = min(n, 2)
        if depth > 8:
            n = min(n, 1)
        for _ in range(n):
            out += self.block(depth)
            if self.p(0.92):
                out.append("")
        return out

    def body(self, depth, first_inline=True) -> List[str]:
        """content of a container: optionally starts on the marker line"""
        out = self.blocks(depth + 1, 1, 2)
        return out or [self.text()]

    def paragraph(self, depth):
        lines = [self.text() for _ in range(self.r.randint(1, 3))]
        if self.p(0.08):
            lines[-1] += self.ch(["::", " ::", ": :"])
            lines += ["", "   literal", ""]
        if self.p(0.05):
            lines.insert(1, "   unexpected indent")
        return lines

    def section(self, depth):
        t = self.ch(["Title", "T", "A longer title", self.text(), "", "日本語タイトル", "1. Numbered", "- dash", ".. dots", ":f: x", "| x", "__ x", ">>> x", "-a  x"])
        c = self.ch(ADORN)
        ln = max(0, len(t) + self.ch([0, 0, 0, 1, 3, -1, -2, -len(t) + 1, -len(t) + 3]))
        under = c * ln if self.p(0.95) else c * 2 + self.ch(ADORN) + c
        out = []
        if self.p(0.25):
            over = under if self.p(0.8) else self.ch(ADORN) * (ln + self.ch([0, 1, -1]))
            out.append(over)
            if self.p(0.1):
                out.append("")
            out.append((" " if self.p(0.3) else "") + t)
        else:
            out.append(t)
        if self.p(0.95):
            out.append(under)
        if self.p(0.1):
            out.append(c * 5)
        return out

    def item(self, marker, depth):
        content = self.body(depth)
        if self.p(0.1):
            return [marker.rstrip()] + self.ind(content, " " * len(marker))
        pad = " " * len(marker)
        return [marker + content[0]] + self.ind(content[1:], pad if self.p(0.95) else pad[:-1])

    def bullet_list(self, depth):
        b = self.ch(BULLETS)
        out = []
        for i in range(self.r.randint(1, 3)):
            out += self.item((b if self.p(0.9) else self.ch(BULLETS)) + " " * self.ch([1, 1, 1, 2, 3]), depth)
            if self.p(0.4):
                out.append("")
        return out

    def enumerator(self, seq, n):
        if seq == "arabic":
            return str(n)
        if seq == "auto":
            return "#"
        if seq == "loweralpha":
            return chr(96 + n) if 1 <= n <= 26 else "aa"
        if seq == "upperalpha":
            return chr(64 + n) if 1 <= n <= 26 else "AA"
        if seq == "lowerroman":
            return roman(n).lower() if n > 0 else "n"
        if seq == "upperroman":
            return roman(n) if n > 0 else "N"
        return self.ch(["IIII", "VX", "IC", "MMMMM", "iiii", "vx", "lcdm", "IXI", "XXL", "0", "00", "01", "9" * 30, "9" * 4400, "Z", "z", "ivxlcdm", "MDCLXVI", "iM", "##", "#1"])

    def enum_list(self, depth):
        seq = self.ch(["arabic", "arabic", "auto", "loweralpha", "upperalpha", "lowerroman", "lowerroman", "upperroman", "upperroman", "bad"])
        fmt = self.ch(["{}.", "{})", "({})"])
        start = self.ch([1, 1, 1, 2, 3, 4, 5, 7, 8, 9, 10, 18, 19, 20, 21, 22, 25, 26, 27, 39, 40, 49, 50, 99, 100, 400, 499, 500, 900, 999, 1000, 1999, 3999, 4000, 4999, 5000, 0, 10 ** 20])
        step = self.ch([1, 1, 1, 1, 0, 2, -1])
        out = []
        n = start
        for i in range(self.r.randint(1, 4)):
            e = fmt.format(self.enumerator(seq, n))
            if self.p(0.05):
                e = self.ch(["{}.", "{})", "({})"]).format(self.enumerator(self.ch(["arabic", "lowerroman", "upperroman", "loweralpha", "auto"]), n))
            out += self.item(e + " " * self.ch([1, 1, 2]), depth)
            if self.p(0.3):
                out.append("")
            n += step
        if self.p(0.15):
            out.append(fmt.format(self.enumerator(seq, n)) + " tail")
            out.append("not indented continuation")
        if self.p(0.03):
            # an arabic enumerator at the interpreter's limit for int <-> str conversion (4300 digits): the enumerator itself
            # converts, its successor (needed to check the line after a one-line item) does not
            out.append(fmt.format(self.ch(["9" * 4300, "9" * 4299, "1" + "0" * 4299, "9" * 4301])) + " tail")
            out.append("not indented continuation")
        return out

    def definition_list(self, depth):
        out = []
        for _ in range(self.r.randint(1, 3)):
            t = self.text() if self.p(0.6) else self.word()
            if self.p(0.3):
                t += " : " + self.word()
            if self.p(0.1):
                t += " : " + self.text() + " : c2"
            out.append(t)
            out += self.ind(self.body(depth), "  " if self.p(0.8) else "    ")
            if self.p(0.4):
                out.append("")
        return out

    def field_list(self, depth):
        out = []
        for _ in range(self.r.randint(1, 3)):
            name = self.ch(["name", "orphan", "template", "hidefeedback", "param x", "returns", "a:b", "a\\:b", "", " ", "*e*", ":ref:`x`", "éé", "long name here", "type", "default", "tocdepth"])
            marker = f":{name}:"
            if self.p(0.3):
                out.append(marker)
                if self.p(0.5):
                    out += self.ind(self.body(depth), "   ")
            else:
                content = self.body(depth)
                out.append(marker + " " + content[0])
                out += self.ind(content[1:], "   ")
        return out

    def option_list(self, depth):
        out = []
        for _ in range(self.r.randint(1, 3)):
            o = self.ch(["-a", "-a ARG", "-aARG", "--long", "--long=ARG", "--long ARG", "/V", "/V ARG", "-a, -b", "-a, --all", "--long=<a b>", "-f <file>", "+x", "-1", "--", "-", "--a-b_c=D",
                         "-a,-b", "-a ,", "--long=", "-ab", "-a <", "--x=<>", "-x, "])
            sep = self.ch(["  ", "  ", "   ", " ", ""])
            if self.p(0.8):
                d = self.body(depth)
                out.append(o + sep + d[0])
                out += self.ind(d[1:], " " * (len(o) + len(sep) or 2))
            else:
                out.append(o)
                if self.p(0.5):
                    out += self.ind(self.body(depth), "      ")
        return out

    def line_block(self, depth):
        out = []
        for _ in range(self.r.randint(1, 4)):
            out.append("|" + self.ch([" ", " ", "  ", "     ", ""]) + self.ch([self.text(), "", self.word()]))
            if self.p(0.15):
                out.append("  continuation " + self.word())
        return out

    def literal_block(self, depth):
        k = self.r.randrange(5)
        if k == 0:
            return ["::", "", "   literal " + self.word(), "     more", ""]
        if k == 1:
            return [self.word() + "::", "", "> quoted", "> literal", ""]
        if k == 2:
            return ["::", "", "> quoted", "inconsistent"]
        if k == 3:
            return ["::", "not indented"]
        return [self.word() + " ::", "", "  x", "", "  y", ""]

    def doctest(self, depth):
        return [">>>" + self.ch([" ", "", "  "]) + self.ch(["1+1", "print('x')", ""])] + (["2"] if self.p(0.5) else [])

    def simple_table(self, depth):
        k = self.r.randrange(6)
        if k == 0:
            return ["=====  =====", "A      B", "=====  =====", "1      2", "=====  ====="]
        if k == 1:
            return ["=====  =====", "A      B", "=====  =====", "1      " + self.text(), "=====  ====="]
        if k == 2:
            return ["=====  =====", "A      B", "1      2"]
        if k == 3:
            return ["== ==", "a  b", "-----", "c  d", "== =="]
        if k == 4:
            return ["=====  =====", "A      B", "------------", "spanning", "=====  =====", "", "=====  ====="]
        return ["===== =====", "text overlapping the column boundary", "===== ====="]

    def grid_table(self, depth):
        k = self.r.randrange(6)
        if k == 0:
            return ["+---+---+", "| a | b |", "+---+---+", "| c | d |", "+---+---+"]
        if k == 1:
            return ["+---+---+", "| a | b |", "+===+===+", "| " + self.ch(["c", "*", "`", "-"]) + " | d |", "+---+---+"]
        if k == 2:
            return ["+---+---+", "| a | b |", "+---+", "| c | d |"]
        if k == 3:
            return ["+-----+", "| 日本 |", "+-----+"]
        if k == 4:
            return ["+---+---+", "| a     |", "+   +---+", "| c | d |", "+---+---+"]
        return ["+---+", "| - x |", "+---+", "|", "+"]

    def footnote(self, depth):
        lab = self.ch(["1", "2", "#", "#" + self.ch(NAMES), "*", "99", "#a b", "01", "99999999999999999999"])
        content = self.body(depth) if self.p(0.8) else [""]
        return [f".. [{lab}] " + content[0]] + self.ind(content[1:], "   ")

    def citation(self, depth):
        lab = self.ch(["CIT2002", "a", "x-y", "A.B", "über", "c_d"])
        content = self.body(depth) if self.p(0.8) else [""]
        return [f".. [{lab}] " + content[0]] + self.ind(content[1:], "   ")

    def target(self, depth):
        k = self.r.randrange(22)
        nm, u = self.ch(NAMES), self.ch(URIS)
        if k == 0:
            return [f".. _{nm}:"]
        if k == 1:
            return [f".. _{nm}: {u}"]
        if k == 2:
            return [f".. _{nm}: {self.ch(NAMES)}_"]
        if k == 3:
            return [f".. __: {u}"]
        if k == 4:
            return [f"__ {u}"]
        if k == 5:
            return [f"__ {self.ch(NAMES)}_"]
        if k == 6:
            return ["__"]
        if k == 7:
            return [f".. _`{nm}: x`: {u}"]
        if k == 8:
            return [f".. _{nm}"]
        if k == 9:
            return [f".. _{nm}:", f"   {u}", "   continued"]
        if k == 10:
            return [f".. _{nm}: `phrase ref`_"]
        if k == 11:
            return [".. _:"]
        if k == 12:
            return [".. _: x"]
        if k == 13:
            return [".. __:"]
        if k == 14:
            return [f".. _{nm}:", f".. _{self.ch(NAMES)}:", "", self.text()]
        if k == 15:
            return [f"__ {u}", f"__ {self.ch(URIS)}", f".. _{nm}:"]
        if k == 16:
            return [f".. _{nm}\\: x: {u}"]
        if k == 17:
            return [f".. _{nm}: {u}", "   " + self.ch(URIS)]
        if k == 18:
            return ["__ " + self.text()]
        if k == 19:
            return [f".. __: {self.ch(NAMES)}_"]
        if k == 20:
            return ["__", "   " + u]
        return [f".. _{nm}: {u} {self.ch(NAMES)}_"]

    def substitution_def(self, depth):
        nm = self.ch(NAMES + ["sub", "a b", " a", "a ", "*"])
        k = self.r.randrange(16)
        if k == 0:
            return [f".. |{nm}| replace:: {self.text()}"]
        if k == 1:
            return [f".. |{nm}| unicode:: {self.ch(['U+2014', '0x41', 'U+D800', 'U+110000', 'x', '65 66', '.. comment', '&#x41;', '99999999999', '-1', 'U+', '\\\\u0041', '0x', 'u2014'])}"]
        if k == 2:
            return [f".. |{nm}| image:: /images/a.png"]
        if k == 3:
            return [f".. |{nm}| {self.ch(['nope', 'note', 'code-block', 'include', 'figure', 'tabs', 'toctree', 'only', 'icon'])}:: {self.word()}"]
        if k == 4:
            return [f".. |{nm}|"]
        if k == 5:
            return [f".. |{nm}| replace::"]
        if k == 6:
            return [f".. |{nm}| replace:: {self.word()}", "   continued", "", "   new paragraph"]
        if k == 7:
            return [f".. |{nm}| {self.text()}"]
        if k == 8:
            return [f".. |{nm}", "   |x| replace:: y"]
        if k == 9:
            return [f".. |{nm}| replace:: _`target` [#]_ `x`__"]
        if k == 10:
            return [f".. |{nm}| replace::", "   " + self.text()]
        if k == 11:
            return [f".. |{nm}| replace:: |{nm}|"]
        if k == 12:
            return [f".. |{nm}| unicode:: U+2014", "   :trim:"]
        if k == 13:
            return [f".. |{nm}| replace:: x", "   :ltrim:", "   :nope:"]
        if k == 14:
            return [f".. |{nm}| date:: %Y"]
        return [f".. |{nm}| replace:: {self.role()}"]

    def comment(self, depth):
        return self.ch([[".. comment"], [".."], ["..", ""], ["..", "   indented comment"], [".. multi", "   line"], [".. [not a footnote"], [".. _not a target"], ["..", "", "   block quote after empty comment"],
                        [".. note:"], [".. note :: x"], [".. :: x"], [".. a b:: x"]])

    def transition(self, depth):
        c = self.ch(ADORN)
        return ["", c * self.ch([4, 5, 20, 3, 2, 1]), ""]

    def block_quote(self, depth):
        out = self.ind(self.body(depth), "   ")
        if self.p(0.3):
            out += ["", "   -- " + self.word()]
        return out

    def raw_explicit(self, depth):
        return [self.ch([".. [", ".. []", ".. [#] ", ".. |", ".. ||", ".. | | x", ".. _", ".. __", ".. ::", ".. x::y", "..x", ".. \\", ".. [1]x", ".. [*]_", ".. |x|_", ".. [#a]", ".. [#a", ".. |a| b::",
                         ".. _a: b_: c_", ".. |x| |y| replace:: z", ".. class::", ".. role:: x", ".. role:: x(ref)", ".. default-role:: ref", ".. default-domain::", ".. default-domain:: py"])]

    # ------------------------------------------------------------------ directives
    def optvalue(self, kind):
        if self.p(0.25):
            return self.ch(ILL)
        if isinstance(kind, list):
            return self.optvalue(self.ch(kind)) if kind else ""
        if kind.startswith("enum:"):
            vals = self.enums.get(kind[5:], [])
            return self.ch(vals) if vals else "x"
        return {
            "integer": lambda: self.ch(["1", "-3", "0", "42"]),
            "nonnegative_integer": lambda: self.ch(["0", "1", "2", "3", "10"]),
            "path": lambda: self.ch(["/images/a.png", "/code/a.py", "/nope.png", "rel.png", "/images/bad.bin", "/code/latin1.txt", "/images", "/"]),
            "uri": lambda: self.ch(URIS),
            "string": lambda: self.ch([self.word(), self.text(), "python", "language, interface", "python, driver", "m1", "shell", "drivers"]),
            "length": lambda: self.ch(["10", "10px", "50%", "1.5em", "3 cm", "px", "%", ".", ".em", "1.", ".5px", "1e3px", "-1px", "0"]),
            "boolean": lambda: self.ch(["true", "false", "True", ""]),
            "flag": lambda: "",
            "linenos": lambda: self.ch(["1", "1-2", "1,3", "2-1", "99", "1-"]),
        }.get(kind, lambda: "x")()

    def special_arg(self, name):
        base = name.split(":")[-1]
        if base in ("figure", "image", "atf-image"):
            return self.ch(["/images/a.png", "/images/bad.bin", "/nope.png", "images/a.png", "/images/a.png extra", "http://x/y.png", "/images/loop.png"])
        if base in ("literalinclude", "input", "output"):
            return self.ch(["/code/a.py", "/nope.py", "/code/latin1.txt", "/images/bad.bin", "code/a.py", "/code", "/code/empty.txt", "/code/loop.py", "/code/dangling.py"])
        if base in ("include", "sharedinclude"):
            return self.ch(["/includes/a.rst", "/nope.rst", "x.rst", "/"])
        if base == "openapi":
            return self.ch(["/code/spec.yaml", "/nope.yaml", "http://127.0.0.1:1/x", "cloud", ":ref:`x`", "/code/bad.yaml", "/code/date.yaml",
                            "/code/alias.yaml", "/code/tab.yaml", "/images/bad.bin", "/code/latin1.txt", "/code/empty.txt", "/code", "/code/loop.py"])
        if base == "openapi-changelog":
            return self.ch(["cloud", "x"])
        if base in ("pubdate", "updated-date"):
            return self.ch(["2020-01-01", "2020-13-01", "x", "20200101"])
        if base in ("code-block", "code", "sourcecode"):
            return self.ch(["python", "sh", "none", "x y"])
        if base == "default-domain":
            return self.ch(["mongodb", "std", "py", "zz", ""])
        if base in ("versionadded", "versionchanged", "deprecated"):
            return self.ch(["1.0", "1.0 text after", "1.0\n   second line", "*x*"])
        if base in ("option", "program"):
            return self.ch(["--port", "-f <x>", "--port, -p", "mongod", "x", "-a, b", "--a=b, /c", "--foo, , --bar", ", ", ",", "--a, ", " , -b", "-a, , ,", "=", "--x <y>, <z>"])
        if base in ("tabs-selector", "tabs-pillstrip"):
            return self.ch(["drivers", "platforms", "x"])
        if base == "time":
            return self.ch(["5", "x", "-1"])
        return None

    def directive(self, depth, d=None):
        if d is not None:
            pass
        elif self.focus and self.p(0.5) and self.focus in self.byname:
            d = self.byname[self.focus]
        elif self.p(0.04):
            return [f".. {self.ch(['nope', 'mongodb:nope', 'zz:note', 'Note', 'NOTE', 'std:label', 'py:function', 'mongodb:dbcommand', 'dbcommand', 'binary', 'option', 'program', 'label', 'data', 'method'])}:: {self.word()}", "", "   " + self.text()]
        else:
            d = self.ch(self.directives)
        name = d["name"]
        if name.split(":")[-1] == "facet" and self.p(0.4):
            return self.facet_tree(depth)
        written = name if self.p(0.5) else name.split(":")[-1]   # real documents use the unqualified spelling
        head = f".. {written}::"
        arg = None
        sp = self.special_arg(name)
        if d["arg"] or self.p(0.1):
            if self.p(0.85):
                arg = sp if (sp is not None and self.p(0.8)) else self.ch([self.text(), self.word(), self.ch(ILL), self.ch(URIS), "a()", "a.b(c)", "--x <y>, -z", self.ch(self.CALLS)])
        if arg is not None:
            head += " " + arg.split("\n")[0]
        lines = [head.rstrip() if self.p(0.95) else head + " "]
        if arg and "\n" in arg:
            lines += arg.split("\n")[1:]
        elif arg and self.p(0.06):
            lines.append("   continued argument " + self.word())
        ci = "   " if self.p(0.95) else self.ch(["  ", "    ", " "])
        # options
        opts = []
        for k in d["opts"]:
            if k in d["req"]:
                if self.p(0.85):
                    opts.append(k)
            elif self.p(0.3):
                opts.append(k)
        if self.p(0.08):
            opts.append(self.ch(["nope", "class", "name", "", "a b", "é"]))
        if self.p(0.05) and opts:
            opts.append(opts[0])
        self.r.shuffle(opts)
        for k in opts:
            v = self.special_opt(name, k)
            if v is None:
                v = self.optvalue(d["optspec"].get(k, "string"))
            if self.p(0.08):
                v = ""  # option given without a value: the validator is called with None
            lines.append((ci + f":{k}: {v}").rstrip())
            if self.p(0.03):
                lines.append(ci + "   continued")
        blank = self.p(0.9)
        if blank:
            lines.append("")
        # content
        ct = d["content"]
        content: List[str] = []
        base = name.split(":")[-1]
        if self.p(0.12):
            ct = self.ch(["block", "", "raw", "list"])
        if base == "toctree":
            for _ in range(self.r.randint(0, 4)):
                content.append(self.ch(["/page1", "page", "Title </page1>", "https://x.y", "Ext <https://x.y>", "<|proj|>", "T <|proj|>", "T <||>", "|proj|", "<x>", "T <>", " <x>", "T <http://[x>", "http://[x",
                                        "T <//[x>", "", "T <|p|> x", "/a b", "*", "T <\\|p|>", self.text()]))
        elif base in ("tabs",) or ct == "tabs":
            if self.p(0.25):
                content = ["tabs:", "  - id: " + self.ch(["shell", "python", "x", ""]), "    content: |", "      " + self.text()] if self.p(0.7) else self.ch(
                    [["tabs:"], ["tabs:", "  - x"], ["tabs:", "  x: y"], ["hidden: true", "tabs:", "  - id: a", "    name: b", "    content: ''"], ["tabs:", "  - id: [", ], ["tabs:", "- 1"], ["tabs:", "  - id: a", "    content: |", "      .. tab:: x"]])
            else:
                for _ in range(self.r.randint(0, 2)):
                    content += self.sub_directive("tab", depth) + [""]
                if self.p(0.2):
                    content += self.blocks(depth + 1, 1, 1)
        elif base == "list-table":
            if self.p(0.25):
                # something that is not the list of rows comes first (a childless element: label, empty comment, transition, target)
                content += self.ch([[".. _anchor:", ""], ["..", ""], ["-----", ""], [".. _t: https://x.y", ""], [".. |s| replace:: x", ""], ["text first", ""]])
            rows = self.r.randint(0, 3)
            for i in range(rows):
                cols = self.r.randint(0, 3)
                for j in range(cols):
                    cell = self.body(depth + 2) if self.p(0.2) else [self.text()]
                    lead = ("* - " if j == 0 else "  - ")
                    content += [lead + cell[0]] + self.ind(cell[1:], "    ")
                if cols == 0:
                    content.append("* x")
            if self.p(0.15):
                content += self.blocks(depth + 1, 1, 1)
        elif base == "facet" and depth < 4:
            # facets nest (target_product > sub_product / version); the nested one is validated against the entry selected by the
            # enclosing ones, whose attributes (name, display_name) are not categories
            for _ in range(self.r.randint(0, 2)):
                content += self.sub_directive("facet", depth) + [""]
        elif base == "io-code-block":
            for part in self.ch([["input", "output"], ["input"], ["output"], ["output", "input"], ["input", "input"], [], ["note"]]):
                content += self.sub_directive(part, depth) + [""]
        elif base in ("code-block", "code", "sourcecode", "input", "output") or ct == "raw":
            content = self.ch([["x = 1"], ["x = 1", "", "  y"], [], ["\t tab"], [".. note::", "", "   x"], ["*"], [":opt: looks like option"], ["x"] * 3])
        elif base == "glossary":
            for _ in range(self.r.randint(0, 2)):
                content += [self.ch(["term", "Term B", self.text()]), "  " + self.text(), ""]
            if self.p(0.2):
                content += self.blocks(depth + 1, 1, 1)
        elif base in ("method-selector",):
            for _ in range(self.r.randint(0, 3)):
                content += self.sub_directive("method-option", depth) + [""]
        elif base in ("wayfinding",):
            for _ in range(self.r.randint(0, 3)):
                content += self.sub_directive(self.ch(["wayfinding-option", "wayfinding-description", "note"]), depth) + [""]
        elif base == "composable-tutorial":
            for _ in range(self.r.randint(0, 2)):
                content += self.sub_directive("selected-content", depth) + [""]
            if self.p(0.3):
                content += self.blocks(depth + 1, 1, 1)
        elif base in ("procedure",):
            for _ in range(self.r.randint(0, 2)):
                content += self.sub_directive("step", depth) + [""]
        elif base in ("card-group",):
            for _ in range(self.r.randint(0, 2)):
                content += self.sub_directive("card", depth) + [""]
        elif base in ("chapters", "ia", "quiz"):
            for _ in range(self.r.randint(0, 2)):
                content += self.sub_directive({"chapters": "chapter", "ia": "entry", "quiz": "quizchoice"}[base], depth) + [""]
        elif ct in ("block", "list", "string", "list_table") or self.p(0.1):
            content = self.blocks(depth + 1, 0, 2)
            if d["fields"] and self.p(0.5):
                content = [f":{self.ch(d['fields'] + ['nope'])}: {self.text()}" for _ in range(self.r.randint(1, 3))] + [""] + content
        lines += self.ind(content, ci)
        return lines

    def facet_tree(self, depth, level=0):
        """facets as authors write them (unqualified, both options, a valid outer pair), the nested one naming a category below
        the selected entry - or something else that entry has: one of its attributes, a category of another level, nonsense"""
        if level == 0:
            name, values = self.ch([("target_product", "atlas"), ("target_product", "atlas"), ("target_product", "bi-connector"), ("target_product", "drivers"),
                                    ("genre", "tutorial"), ("programming_language", "python"), ("target_product", "zz")])
        else:
            name, values = self.ch([("sub_product", "atlas-cli"), ("sub_product", "charts"), ("version", "v1.0"), ("name", "charts"), ("name", "atlas"),
                                    ("display_name", "BI Connector"), ("display_name", "Charts"), ("genre", "tutorial"), ("flavour", "charts"),
                                    ("sub_product", "zz"), ("target_product", "atlas")])
        out = [".. facet::", f"   :name: {name}", f"   :values: {values}", ""]
        if level < 2 and self.p(0.75 if level == 0 else 0.3):
            for _ in range(self.r.randint(1, 2)):
                out += self.ind(self.facet_tree(depth + 1, level + 1), "   ")
        return out

    def sub_directive(self, base, depth):
        for cand in (base, "mongodb:" + base):
            if cand in self.byname:
                return self.directive(depth + 1, self.byname[cand])
        return [f".. {base}::"]

    def special_opt(self, name, k):
        base = name.split(":")[-1]
        if self.p(0.2):
            return None
        if base in ("tabs", "tab") or base.startswith("tabs-"):
            if k == "tabset":
                return self.ch(list(self.misc["tabs"]) + ["x", ""])
            if k in ("tabid", "default-tabid"):
                return self.ch([i for v in self.misc["tabs"].values() for i in v][:40] + ["x", "a b", ""])
        if base == "method-option" and k == "id":
            return self.ch(self.misc["method"] + ["zz", ""])
        if base == "wayfinding-option" and k == "id":
            return self.ch(self.misc["wayfinding"][:30] + ["zz", ""])
        if base in ("composable-tutorial", "selected-content") and k in ("options", "defaults", "selections"):
            comps = self.misc["composables"]
            if not comps:
                return "x"
            picks = [self.ch(comps) for _ in range(self.r.randint(0, 3))]
            if k == "options":
                return self.ch([", ".join(c[0] for c in picks), "zz", "", ",", "a,,b", " , "])
            return self.ch([", ".join(self.ch(c[1] + ["None"]) if c[1] else "x" for c in picks), "zz", "", ",", "None", "a,,b"])
        if base == "facet" and k in ("name", "values"):
            # name and value are chosen together (a matching pair most of the time): nested facets are only looked at when the
            # enclosing ones are valid
            pair = getattr(self, "_facet_pair", None)
            if pair is None:
                pair = self.ch([("genre", "tutorial"), ("genre", "reference"), ("target_product", "atlas"), ("target_product", "atlas"),
                                ("target_product", "bi-connector"), ("target_product", "drivers"), ("programming_language", "python"),
                                ("sub_product", "atlas-cli"), ("sub_product", "charts"), ("version", "v1.0"), ("name", "atlas"), ("name", "name"),
                                ("display_name", "BI Connector"), ("display_name", "x"), ("zz", "zz"), ("", ""), ("genre", "a,b"),
                                ("target_product", "atlas, zz"), ("genre", ","), ("tutorial", "genre")])
                self._facet_pair = pair
            else:
                self._facet_pair = None
            return pair[0] if k == "name" else pair[1]
        if base == "list-table" and k in ("header-rows", "stub-columns"):
            return self.ch(["0", "1", "2", "9", "x", "-1", ""])
        if base == "list-table" and k == "widths":
            return self.ch(["10 20", "10,20", "x", "", "1", "10 20 30", "auto"])
        if k in ("start-after", "end-before"):
            return self.ch(["m1", "m2", "zz", "", "x = 1"])
        if k == "emphasize-lines":
            return self.ch(["1", "1-2", "99", "2-1", "x", "1,", "-1", "0", "1-2-3", ""])
        if k == "dedent":
            return self.ch(["", "2", "x", "-1", "99"])
        if k == "lineno-start":
            return self.ch(["1", "0", "x", "99999999999999999999"])
        if k == "language":
            return self.ch(["python", "x", "", "a b"])
        if k in ("image", "icon", "icon-dark", "thumbnail-url") and self.p(0.6):
            return self.ch(["/images/a.png", "/nope.png", "/images/bad.bin", "http://x/y.png", "x", ""])
        if k == "url":
            return self.ch(URIS + ["/page", "page"])
        return None

    # ------------------------------------------------------------------ documents
    def doc(self) -> str:
        self.budget = self.ch([10, 25, 40, 60])
        lines: List[str] = []
        if self.p(0.15):
            lines += [f":{self.ch(['orphan', 'template', 'hidefeedback', 'x', 'tocdepth'])}: {self.ch(['', 'x', 'header', '*e*'])}".rstrip(), ""]
        if self.p(0.6):
            lines += ["Page title", "==========", ""]
        if self.p(0.05):
            lines = [".. default-domain:: " + self.ch(["mongodb", "std", "py", "zz"]), ""] + lines
        for _ in range(self.r.randint(1, 5)):
            lines += self.block(0 if self.p(0.9) else self.r.randint(0, 6))
            if self.p(0.93):
                lines.append("")
        return "\n".join(lines) + ("\n" if self.p(0.9) else "")

    def deep(self) -> str:
        """a chain of containers nested exactly up to depth 12"""
        depth = self.r.randint(6, MAX_DEPTH)
        self.budget = 6
        lines = self.block(MAX_DEPTH - 1) if self.p(0.5) else [self.text()]
        for _ in range(depth):
            k = self.r.randrange(9)
            if k == 0:
                lines = ["- " + lines[0]] + self.ind(lines[1:], "  ")
            elif k == 1:
                lines = ["1. " + lines[0]] + self.ind(lines[1:], "   ")
            elif k == 2:
                lines = ["term"] + self.ind(lines, "  ")
            elif k == 3:
                lines = [":f: " + lines[0]] + self.ind(lines[1:], "   ")
            elif k == 4:
                nm = self.ch(["note", "tip", "step", "procedure", "tab", "tabs", "only", "container", "collapsible", "glossary", "list-table", "cond", "blockquote", "io-code-block", "selected-content", "example", "sidebar x"])
                lines = [f".. {nm}::", ""] + self.ind(lines, "   ")
            elif k == 5:
                lines = self.ind(lines, "   ")
            elif k == 6:
                lines = [".. [#] " + lines[0]] + self.ind(lines[1:], "   ")
            elif k == 7:
                lines = ["-a  " + lines[0]] + self.ind(lines[1:], "    ")
            else:
                lines = ["| " + lines[0]] + self.ind(lines[1:], "  ")
        return "\n".join(lines) + "\n"


# ---------------------------------------------------------------------- mutation stream
def mutate(rng, text: str) -> str:
    for _ in range(rng.randint(1, 4)):
        k = rng.randrange(16)
        lines = text.split("\n")
        if not text:
            return rng.choice(["", " ", "\n", "..", "__", "|", "::", "\x00"])
        if k == 0:  # delete a char
            i = rng.randrange(len(text))
            text = text[:i] + text[i + 1:]
        elif k == 1:  # duplicate a char
            i = rng.randrange(len(text))
            text = text[:i] + text[i] + text[i:]
        elif k == 2:  # insert a special char
            i = rng.randrange(len(text) + 1)
            text = text[:i] + rng.choice("`*|_:.\\<>[]()#-+=~ \t\n\r\x0b\x0c\x00\u00a0\u2028é日\U0001f600") + text[i:]
        elif k == 3:  # delete a line
            i = rng.randrange(len(lines))
            text = "\n".join(lines[:i] + lines[i + 1:])
        elif k == 4:  # duplicate a line
            i = rng.randrange(len(lines))
            text = "\n".join(lines[:i] + [lines[i]] + lines[i:])
        elif k == 5:  # indent / dedent a line
            i = rng.randrange(len(lines))
            d = rng.choice([1, 2, 3, 4, -1, -2, -3, -100])
            lines[i] = (" " * d + lines[i]) if d > 0 else lines[i][min(-d, len(lines[i]) - len(lines[i].lstrip())):]
            text = "\n".join(lines)
        elif k == 6:  # truncate
            text = text[: rng.randrange(len(text) + 1)]
        elif k == 7:  # swap two lines
            if len(lines) > 1:
                i, j = rng.randrange(len(lines)), rng.randrange(len(lines))
                lines[i], lines[j] = lines[j], lines[i]
                text = "\n".join(lines)
        elif k == 8:  # join two lines
            i = rng.randrange(len(lines))
            text = "\n".join(lines[:i] + ["".join(lines[i:i + 2])] + lines[i + 2:])
        elif k == 9:  # remove all blank lines in a window
            i = rng.randrange(len(lines))
            text = "\n".join(lines[:i] + [l for l in lines[i:i + 6] if l.strip()] + lines[i + 6:])
        elif k == 10:  # indent a window
            i = rng.randrange(len(lines))
            d = rng.choice([1, 2, 3, 4])
            text = "\n".join(lines[:i] + [" " * d + l if l else l for l in lines[i:i + 5]] + lines[i + 5:])
        elif k == 11:  # replace a byte of the UTF-8 encoding (decoded with replacement)
            b = bytearray(text.encode("utf-8", "replace"))
            if b:
                b[rng.randrange(len(b))] = rng.randrange(256)
            text = b.decode("utf-8", "replace")
        elif k == 12:  # delete a byte of the UTF-8 encoding
            b = bytearray(text.encode("utf-8", "replace"))
            if b:
                del b[rng.randrange(len(b))]
            text = b.decode("utf-8", "replace")
        elif k == 13:  # tabs for leading spaces
            i = rng.randrange(len(lines))
            lines[i] = lines[i].replace("   ", "\t", 1)
            text = "\n".join(lines)
        elif k == 14:  # CRLF
            text = text.replace("\n", rng.choice(["\r\n", "\r"]), rng.randint(1, 3))
        else:  # splice two halves of the text
            i, j = sorted((rng.randrange(len(text) + 1), rng.randrange(len(text) + 1)))
            text = text[:i] + text[j:] + text[i:j]
    return text


def snippets() -> Dict[str, str]:
    """one small text per docutils node kind the state machine can emit (used by the directed search after a broken
    dispatch theorem and by the corpus): kind -> text"""
    return {
        "option_list": "-a  foo\n", "doctest_block": ">>> 1+1\n2\n", "citation": ".. [CIT2002] x\n", "citation_reference": "see [CIT2002]_\n",
        "anonymous_target": "__ http://example.com\n", "field_list": "para\n\n:f: x\n", "definition_list": "term\n  def\n", "bullet_list": "- a\n",
        "enumerated_list": "1. a\n", "line_block": "| a\n", "literal_block": "::\n\n   x\n", "table": "== ==\na  b\n== ==\n", "footnote": ".. [1] x\n",
        "footnote_reference": "x [1]_\n", "target": ".. _a:\n", "substitution_definition": ".. |x| replace:: y\n", "substitution_reference": "x |y| z\n",
        "comment": ".. c\n", "transition": "a\n\n----\n\nb\n", "block_quote": "a\n\n   q\n", "section": "T\n=\n", "reference": "a_ `b <http://x>`_\n",
        "emphasis": "*a*\n", "strong": "**a**\n", "literal": "``a``\n", "title_reference": "`a`\n", "problematic": "*a\n", "system_message": ".. nope::\n",
        "classifier": "term : cls\n  def\n", "attribution": "   q\n\n   -- me\n", "inline_target": "_`a`\n",
    }
