"""Subprocess side of the C05 differential: build one project with the real snooty code and dump
everything the property talks about as canonical JSON.

usage: python c05_build.py <project dir> <max_workers> <zip out> <json out> [<prefix project dir>]

When a prefix project dir is given, that (unrelated) project is built first in the same process,
so that anything cached in module globals (directive registry, nested state-machine pool, spec)
is already warm / polluted when the project under test is parsed.
"""
import contextlib
import hashlib
import io
import json
import logging
import os
import sys
import zipfile
from pathlib import Path


def _permute_discovery_order():
    """VERIF_WALK_SEED: present the entries of every directory to os.walk's callers in a seeded random order
    (the order in which files are discovered is one of the things a build must not depend on)."""
    seed = os.environ.get("VERIF_WALK_SEED")
    if not seed:
        return
    import random
    real_walk = os.walk

    def walk(top, *args, **kwargs):
        for base, dirs, files in real_walk(top, *args, **kwargs):
            r = random.Random(f"{seed}:{base}")
            r.shuffle(dirs)
            r.shuffle(files)
            yield base, dirs, files

    os.walk = walk


def build(root: str, max_workers: int, zip_out, record: bool):
    _permute_discovery_order()
    from snooty import main as snooty_main
    from snooty.diagnostics import MakeCorrectionMixin
    from snooty.parser import Project

    class Recording(snooty_main.ZipBackend):
        def __init__(self, zf):
            super().__init__(zf)
            self.rec_pages = []
            self.rec_diag = {}
            self.rec_meta = {}

        def on_diagnostics(self, path, diagnostics):
            lst = self.rec_diag.setdefault(path.as_posix(), [])
            for d in diagnostics:
                item = dict(d.serialize())
                item["type"] = type(d).__name__
                if isinstance(d, MakeCorrectionMixin):
                    item["did_you_mean"] = d.did_you_mean()
                lst.append(item)
            with contextlib.redirect_stdout(io.StringIO()):
                super().on_diagnostics(path, diagnostics)

        def on_update(self, prefix, build_identifiers, page_id, page):
            self.rec_pages.append([
                page_id.as_posix(),
                page.ast.serialize(),
                sorted(a.key for a in page.static_assets),
                [f.serialize() for f in page.facets] if page.facets else None,
            ])
            super().on_update(prefix, build_identifiers, page_id, page)

        def on_update_metadata(self, prefix, build_identifiers, field):
            self.rec_meta.update(field)
            super().on_update_metadata(prefix, build_identifiers, field)

    zf = zipfile.ZipFile(zip_out, mode="w")
    backend = Recording(zf)
    project = Project(Path(root), backend, {}, "master")
    exc = None
    try:
        project.build(max_workers)
    except Exception as e:  # totality is C02's business; here only "same outcome in every configuration"
        exc = f"{type(e).__name__}: {e}"
    finally:
        backend.close()
    if not record:
        return None
    cache = project._project.cache_file
    return {
        "exc": exc,
        "cache_filename": cache.filename,
        "specifier": list(cache.specifier),
        "page_order": [p[0] for p in backend.rec_pages],
        "pages": {p[0]: p[1:] for p in backend.rec_pages},
        "metadata": backend.rec_meta,
        "diagnostics": backend.rec_diag,
    }


def default(o):
    if isinstance(o, bytes):
        return {"$bytes": hashlib.sha1(o).hexdigest(), "len": len(o)}
    if isinstance(o, (set, frozenset)):
        return {"$set": sorted(json.dumps(x, sort_keys=True, default=default) for x in o)}
    return {"$repr": type(o).__name__}


def main():
    logging.disable(logging.CRITICAL)
    root, workers, zip_out, json_out = sys.argv[1], int(sys.argv[2]), sys.argv[3], sys.argv[4]
    prefix = sys.argv[5] if len(sys.argv) > 5 else None
    if prefix:
        build(prefix, 1, io.BytesIO(), record=False)
    dump = build(root, workers, zip_out, record=True)
    # dict order is part of what is observed: do NOT sort keys (insertion order leaks are findings),
    # except for the top-level diagnostics map whose file order is not part of the property.
    dump["diagnostics"] = {k: dump["diagnostics"][k] for k in sorted(dump["diagnostics"])}
    text = json.dumps(dump, ensure_ascii=False, default=default)
    real = os.path.realpath(root)
    text = text.replace(real, "<ROOT>").replace(root, "<ROOT>")
    Path(json_out).write_text(text, encoding="utf-8")


if __name__ == "__main__":
    main()
