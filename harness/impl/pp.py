"""In-process drivers of the real postprocessor on synthetic ASTs."""
import threading
from pathlib import Path
from typing import Dict, List, Optional

from snooty import n
from snooty.n import FileId
from snooty.page import Page
from snooty.postprocess import Postprocessor
from snooty.target_database import TargetDatabase
from snooty.types import ProjectConfig


def config(**kw) -> ProjectConfig:
    return ProjectConfig(Path("/nonexistent-verif-root"), "verif", **kw)


def text(s: str, line: int = 0) -> n.Text:
    return n.Text((line,), s)


def heading(hid: str, title: str = "t", line: int = 0) -> n.Section:
    return n.Section((line,), [n.Heading((line,), [text(title, line)], hid)])


def page(fileid: str, children: List[n.Node], options: Optional[dict] = None) -> Page:
    fid = FileId(fileid)
    return Page.create(fid, None, "", n.Root((0,), children, fid, options or {}))


def run(pages: List[Page], cfg: Optional[ProjectConfig] = None):
    cfg = cfg or config()
    pp = Postprocessor(cfg, TargetDatabase())
    # keyed the way PageDatabase keys them (a page generated from YAML is stored under its output path)
    return pp.run({p.fake_full_fileid(): p for p in pages}, threading.Event())


def walk(node):
    """same order as the EventParser"""
    yield node
    if isinstance(node, n.Parent):
        if isinstance(node, n.DefinitionListItem):
            for t in node.term:
                yield from walk(t)
        if isinstance(node, n.Directive):
            for a in node.argument:
                yield from walk(a)
        for c in node.children:
            yield from walk(c)
