#!/opt/veriftools/pyvenv/bin/python
import json,jsonschema,glob,sys
V=__file__.rsplit('/tools/',1)[0]
jsonschema.validate(json.load(open(V+'/MANIFEST.json')),json.load(open('/root/.vp/MANIFEST.schema.json')))
es=json.load(open('/root/.vp/EVIDENCE.schema.json'))
for f in sorted(glob.glob(V+'/evidence/*.json')):
    jsonschema.validate(json.load(open(f)),es); print('ok',f)
print('manifest ok')
