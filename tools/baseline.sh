#!/bin/bash
# Runs the repository's pinned test suite (guard off) and compares with BASELINE.json's stable_pass list.
# exit 0 iff every stable_pass test passed.
set -u
OUT=$(mktemp /tmp/baseline.XXXXXX.xml)
unset SNOOTY_VERIF
(cd /repo && /venv/bin/python -m pytest -ra -q -p no:cacheprovider --timeout=900 --continue-on-collection-errors --junitxml="$OUT" >/dev/null 2>&1)
/venv/bin/python - "$OUT" <<'PY'
import json,sys,xml.etree.ElementTree as ET
base=json.load(open('/root/.vp/BASELINE.json'))
want=set(base['stable_pass'])
t=ET.parse(sys.argv[1])
passed=set()
for tc in t.iter('testcase'):
    ok=not any(ch.tag in('failure','error','skipped') for ch in tc)
    if ok: passed.add(tc.get('classname')+'::'+tc.get('name'))
missing=sorted(want-passed)
print(f"passed={len(passed)} stable_pass={len(want)} missing={len(missing)}")
for m in missing: print("  MISSING",m)
sys.exit(1 if missing else 0)
PY
rc=$?
rm -f "$OUT"
exit $rc
