#!/venv/bin/python
"""tools/store_seed.py <srcdir> <Cxx> <round> <detection text> : copy a confirmed seeded change into /verif/seeded/Cxx-<n>"""
import json, os, shutil, sys
src, pid, rnd, detection = sys.argv[1], sys.argv[2], int(sys.argv[3]), sys.argv[4]
root = "/verif/seeded"
n = 1
while os.path.exists(f"{root}/{pid}-{n}"):
    n += 1
dst = f"{root}/{pid}-{n}"
os.makedirs(dst)
for f in ("patch.diff", "demo.py"):
    shutil.copy(os.path.join(src, f), dst)
meta = json.load(open(os.path.join(src, "meta.json")))
meta["property"] = pid
meta["round"] = rnd
meta["confirmed_by_me"] = ("tools/eval_seed.sh: patch applied in a scratch worktree of /repo; repository test suite there has the same failure set as the pristine tree; demo.py exit 1 with the change, 0 without; checks run from a private copy of /verif with VERIF_REPO pointing at the worktree; worktree reverted")
meta["detection"] = detection
json.dump(meta, open(os.path.join(dst, "meta.json"), "w"), indent=1)
print(dst)
