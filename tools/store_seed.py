#!/venv/bin/python
"""tools/store_seed.py <srcdir> <Cxx> <round> <detection text> : copy a confirmed seeded change into /verif/seeded/Cxx-<n>"""
import json, os, shutil, sys
src, pid, rnd, detection = sys.argv[1], sys.argv[2], int(sys.argv[3]), sys.argv[4]
root = "/verif/seeded"
n = 1
while os.path.exists(f"{root}/{pid}-{n}"):
    n += 1
dst = f"{root}/{pid}-{n}"
os.makedirs(dst)
for f in ("patch.diff", "demo.py"):
    shutil.copy(os.path.join(src, f), dst)
meta = json.load(open(os.path.join(src, "meta.json")))
meta["property"] = pid
meta["round"] = rnd
meta["confirmed_by_me"] = "applied to /repo with git apply; demo.py exit 1 with change, 0 without; check run; reverted with git checkout"
meta["detection"] = detection
json.dump(meta, open(os.path.join(dst, "meta.json"), "w"), indent=1)
print(dst)
