#!/bin/bash
# tools/eval_revert.sh <fix-commit> <Cxx>... — shows that the named checks report the defect a `fix:` commit repaired: the commit is
# reverted in the scratch worktree /tmp/rev (at /repo's HEAD), the checks run against it from a private copy of /verif.
C=$1; shift
cd /tmp/rev || exit 2
git checkout -q --detach $(git -C /repo rev-parse HEAD) && git checkout -q -- . 
git revert -n $C >/dev/null 2>&1 || { echo "revert of $C does not apply"; git revert --abort 2>/dev/null; git checkout -q -- .; exit 2; }
echo "== $C reverted: $(git -C /repo log --format=%s -1 $C | cut -c1-100)"
/verif/tools/eval_tree.sh /tmp/rev "$@" 2>&1 | grep -v WARN | cut -c1-700
git revert --abort 2>/dev/null; git reset -q --hard
