#!/venv/bin/python
"""tools/add_prop.py Cxx : add Driver/SnootyVerif imports for a merged property"""
import sys,re
pid=sys.argv[1]
p='/verif/lean/Driver.lean'; s=open(p).read()
if f'Drv.{pid}' not in s:
    last=[l for l in s.split('\n') if l.startswith('import SnootyVerif.Drv.')][-1]
    s=s.replace(last,last+f'\nimport SnootyVerif.Drv.{pid}')
    s=re.sub(r'(def allOps[^\n]*\n  )([^\n]*)',lambda m:m.group(1)+m.group(2)+f' ++ {pid}.ops',s)
    open(p,'w').write(s)
p='/verif/lean/SnootyVerif.lean'; s=open(p).read()
if f'Properties.{pid}' not in s:
    open(p,'w').write(s+f'import SnootyVerif.Properties.{pid}\n')
