CHECKS["C09"] = dict(
    text="Machine-checked proof (Lean 4) that the id-assignment algorithm of HeadingHandler/TargetHandler/FootnoteHandler yields pairwise distinct, non-empty, whitespace-free ids for every sequence of names, the first occurrence keeping its id; the hand-written model is tied to /repo by an exhaustive small-scope + random differential through the real Postprocessor and parser, and the property itself is re-checked on every implementation output.",
    note="Model is hand-written (lean/SnootyVerif/Model/Ids.lean); faithful only as far as the correspondence exercised it (all sequences <=5 over the collision alphabet, random pages with includes, text-level pages). \\w/lower/strip are parameters whose hypotheses are checked over all code points. Lean kernel + propext/Classical.choice/Quot.sound.",
    technique="Lean 4 proof (induction over the name list, pigeonhole via suffix injectivity) + model/implementation correspondence",
)
