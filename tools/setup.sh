#!/bin/bash
# MANIFEST.setup_cmd: regenerate the value-level translations from /repo, then build the Lean library and the driver.
DIR="$(cd "$(dirname "${BASH_SOURCE[0]}")/.." && pwd)"
cd "$DIR" || exit 2
export PYTHONPATH="${VERIF_REPO:-/repo}:$DIR/harness" PYTHONHASHSEED=0
/venv/bin/python -W ignore harness/gen_all.py
cd lean && lake build SnootyVerif snooty_driver
