#!/bin/bash
# tools/eval_seed.sh <worktree> <seed-dir> <Cxx> [more checks...]
# Screens one candidate seeded change WITHOUT touching /repo: applies <seed-dir>/patch.diff in the scratch worktree,
# runs the repository test suite there (compared with the pristine failure set), the demo with and without the change, and
# the named checks from a private copy of /verif pointed at the worktree (VERIF_REPO). Everything is reverted/removed after.
# The final confirmation of a detection is still done on /repo itself (git -C /repo apply …; ./check …; git checkout).
WT=$1; SD=$2; ID=$3; shift 3; CHECKS="$ID $@"
EV=$(mktemp -d /tmp/ev-$ID-XXXX)
trap 'rm -rf "$EV"' EXIT
cd "$WT" || exit 2
git checkout -q -- . ; git clean -fdq snooty
if ! git apply --check "$SD/patch.diff" 2>/dev/null; then echo "RESULT patch-does-not-apply"; exit 0; fi
# pristine failure set (cached per worktree HEAD)
PF=/tmp/pristine-fails-$(git rev-parse --short HEAD).txt
if [ ! -s "$PF" ]; then
  PYTHONPATH="$WT" /venv/bin/python -m pytest -q -p no:cacheprovider --timeout=900 -q 2>/dev/null | grep -E "^(FAILED|ERROR)" | sed 's/ - .*//' | sort > "$PF"
fi
(cd /tmp && PYTHONPATH="$WT" timeout 600 /venv/bin/python "$SD/demo.py" >/dev/null 2>&1; echo "demo WITHOUT change rc=$?")
git apply "$SD/patch.diff"
PYTHONPATH="$WT" /venv/bin/python -m pytest -q -p no:cacheprovider --timeout=900 -q 2>/dev/null | grep -E "^(FAILED|ERROR)" | sed 's/ - .*//' | sort > "$EV/fails.txt"
if diff -q "$PF" "$EV/fails.txt" >/dev/null; then echo "tests: same failure set as pristine ($(wc -l < "$PF") expected failures)"; else echo "tests: DIFFER from pristine:"; diff "$PF" "$EV/fails.txt" | head; fi
(cd /tmp && PYTHONPATH="$WT" timeout 600 /venv/bin/python "$SD/demo.py" > "$EV/demo.out" 2>&1; echo "demo WITH change rc=$?"; tail -3 "$EV/demo.out" | cut -c1-300)
mkdir -p "$EV/verif"; git -C /verif archive ${EVAL_REV:-HEAD} | tar -x -C "$EV/verif"; rsync -a /verif/lean/.lake "$EV/verif/lean/" 2>/dev/null
cd "$EV/verif"
for c in $CHECKS; do
  rm -rf replays
  VERIF_REPO="$WT" timeout 2400 ./check $c --tier ${TIER:-quick} > "$EV/check_$c.log" 2>&1; rc=$?
  echo "check $c rc=$rc: $(grep -h '^VIOLATION' "$EV/check_$c.log" | head -3 | sed "s#$EV/verif/##")"
  for r in replays/*.json; do [ -f "$r" ] && /venv/bin/python - "$r" <<'PY'
import json,sys
d=json.load(open(sys.argv[1]))
keys=[k for k in ("violation","desc","broken","ties_broken","key","what") if k in d]
print("   replay:", {k:(str(d[k])[:400]) for k in keys})
PY
  done
  grep -h "KNOWN-FINDING\|Traceback\|Infra" "$EV/check_$c.log" | head -3
done
cd "$WT"; git checkout -q -- . ; git clean -fdq snooty
