#!/bin/bash
# tools/merge_builder.sh Cxx : collect a builder's files from /tmp/b-Cxx/verif into /verif (new files only + listed)
set -e
ID=$1; SRC=/tmp/b-$ID/verif; DST=/verif
cd $SRC
# new or changed files relative to the commit the copy was taken from, excluding shared ones
for f in $(find lean/SnootyVerif harness -type f \( -name '*.lean' -o -name '*.py' -o -name '*.json' \) | grep -v __pycache__); do
  case "$f" in
    harness/core.py|harness/main.py|harness/props/c09.py|harness/props/c06.py|harness/props/c07.py|harness/impl/pp.py|harness/impl/rst.py|harness/impl/__init__.py|harness/props/__init__.py) 
      if ! cmp -s "$f" "$DST/$f" 2>/dev/null; then echo "SHARED-DIFF $f"; fi; continue;;
  esac
  if [ ! -e "$DST/$f" ]; then mkdir -p "$DST/$(dirname $f)"; cp "$f" "$DST/$f"; echo "NEW $f"; 
  elif ! cmp -s "$f" "$DST/$f"; then echo "DIFFERS(not copied) $f"; fi
done
[ -f $SRC/../fix.patch ] && echo "fix.patch present: /tmp/b-$ID/fix.patch"
ls /tmp/b-$ID/ 
