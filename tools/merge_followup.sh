#!/bin/bash
# tools/merge_followup.sh Cxx : copy the files a follow-up builder changed in /tmp/b-Cxx/verif (vs. its HEAD) into /verif;
# shared files are only reported (merge by hand), evidence/replays are skipped.
set -e
ID=$1; SRC=/tmp/b-$ID/verif; DST=/verif
git -C $SRC status --short --untracked-files=all | while read st f; do
  case "$f" in
    evidence/*|replays/*|*__pycache__*|lean/.lake/*) continue;;
    harness/core.py|harness/main.py|tools/manifest_data.py|known_findings.json|lean/Driver.lean|lean/SnootyVerif.lean|DESIGN.md|MANIFEST.json|check)
      echo "SHARED (merge by hand): $f"; continue;;
  esac
  if [ "$st" = "D" ]; then echo "DELETED in copy: $f"; continue; fi
  # refuse if /verif changed the file since the copy was taken
  if [ -e "$DST/$f" ] && ! git -C $SRC diff --quiet HEAD -- "$f" 2>/dev/null && ! cmp -s <(git -C $SRC show HEAD:"$f" 2>/dev/null) "$DST/$f"; then
    echo "CONFLICT (verif changed since copy): $f"; continue; fi
  mkdir -p "$DST/$(dirname $f)"; cp "$SRC/$f" "$DST/$f"; echo "copied $f"
done
ls /tmp/b-$ID/*.patch 2>/dev/null || true
