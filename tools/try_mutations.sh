#!/bin/bash
# tools/try_mutations.sh Cxx [checks...] : applies each /tmp/mut-Cxx-out/<i>/patch.diff to /repo, runs demo + the checks, reverts.
ID=$1; shift; CHECKS="${@:-$ID}"
cd /verif
for d in ${MUTDIR:-/tmp/mut-$ID-out}/*/; do
  i=$(basename $d); echo "=== $ID mutation $i: $(/venv/bin/python -c "import json;print(json.load(open('$d/meta.json'))['summary'][:160])")"
  if ! git -C /repo apply --check $d/patch.diff 2>/dev/null; then echo "  patch does not apply"; continue; fi
  git -C /repo apply $d/patch.diff
  (cd /tmp && PYTHONPATH=/repo timeout 300 /venv/bin/python $d/demo.py >/dev/null 2>&1; echo "  demo rc WITH change = $?")
  for c in $CHECKS; do rm -rf replays; timeout 1200 ./check $c > /tmp/try_$c.log 2>&1; rc=$?; echo "  check $c rc=$rc: $(grep -c '^VIOLATION' /tmp/try_$c.log) violation lines; $(grep -h '"violation"\|no-failing' replays/*.json /tmp/try_$c.log 2>/dev/null | head -2 | cut -c1-220)"; done
  git -C /repo checkout -- . ; git -C /repo clean -fdq snooty 2>/dev/null
  (cd /tmp && PYTHONPATH=/repo timeout 300 /venv/bin/python $d/demo.py >/dev/null 2>&1; echo "  demo rc WITHOUT = $?")
done
rm -rf replays
