#!/bin/bash
# tools/run_all.sh [quick|thorough] [parallelism]  — runs every claimed check against /repo, summary on stdout, logs in /tmp/runall/
TIER=${1:-quick}; P=${2:-5}
cd "$(dirname "$0")/.." || exit 2
mkdir -p /tmp/runall
ids=$(python3 -c "import json; print(' '.join(c['property'] for c in json.load(open('MANIFEST.json'))['checks']))" 2>/dev/null || seq -f "C%02g" 1 20)
echo $ids | tr ' ' '\n' | xargs -P $P -I{} bash -c "./check {} --tier $TIER > /tmp/runall/{}.log 2>&1; echo \"{} rc=\$? \$(grep -c '^VIOLATION' /tmp/runall/{}.log) violation(s) \$(grep -c '^KNOWN-FINDING' /tmp/runall/{}.log) known  \$(tail -1 /tmp/runall/{}.log | cut -c1-160)\""
