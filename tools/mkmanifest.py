#!/venv/bin/python
"""Writes MANIFEST.json from the table below (kept in one place so it is always valid)."""
import json, sys
from pathlib import Path
V = Path(__file__).resolve().parent.parent
CHECKS = {}
NA = {}
exec((V / "tools" / "manifest_data.py").read_text())
props = [json.loads(l)["id"] for l in (V / "properties.jsonl").read_text().splitlines() if l.strip()]
checks = []
for pid in props:
    if pid in CHECKS:
        c = CHECKS[pid]
        checks.append({
            "property_id": pid,
            "quick_cmd": f"./check {pid} --tier quick",
            "thorough_cmd": f"./check {pid} --tier thorough",
            "evidence_file": f"evidence/{pid}.json",
            "replay_cmd_template": f"./check {pid} --replay {{path}}",
            "engine": "lean4-proof+correspondence",
            "level_claimed": {"category": c.get("category", "proof"), "text": c["text"], "design_ref": f"DESIGN.md section 6, {pid}"},
            "level_note": c["note"],
            "technique": c["technique"],
        })
na = [{"property_id": pid, "reason": NA.get(pid, "check not built yet in this round; planned in DESIGN.md section 9")} for pid in props if pid not in CHECKS]
m = {
    "version": 1,
    "setup_cmd": "tools/setup.sh",
    "hooks": {
        "guard": "SNOOTY_VERIF",
        "enable": "no source hooks are needed: the harness imports snooty from /repo's working tree and interposes from outside (instrumented locks, injected postprocessor factory, audit hooks); ./check exports SNOOTY_VERIF=1 for completeness",
        "baseline_off_cmd": "tools/baseline.sh",
        "source_commits": [],
        "add_only": True,
    },
    "engines": [{
        "name": "lean4-proof+correspondence", "path": "lean/ + harness/",
        "serves_properties": sorted(CHECKS),
        "kind_free_text": "Lean 4 models + kernel-checked theorems (lean/SnootyVerif), tied to /repo by value-level translators (harness/gen_tables.py -> lean/SnootyVerif/Gen) and by a differential correspondence check through a compiled line-protocol driver; direct property oracle on the implementation for the failing-input search",
    }],
    "checks": checks,
    "not_applicable": na,
    "notes": "See DESIGN.md. Exit 0 = held, 1 = VIOLATION line printed, 2 = infrastructure failure/timeout. known_findings.json lists recorded defects and fix: commits.",
}
(V / "MANIFEST.json").write_text(json.dumps(m, indent=1) + "\n")
print(f"{len(checks)} checks, {len(na)} not_applicable")
