#!/bin/bash
# tools/eval_tree.sh <tree> <Cxx>... — runs the named checks of the WORKING copy of /verif against another tree (VERIF_REPO),
# from a private copy under /tmp so that /verif's evidence, replays and generated files are untouched. env TIER.
WT=$1; shift
EV=$(mktemp -d /tmp/ev-tree-XXXX)
trap 'rm -rf "$EV"' EXIT
rsync -a --exclude .git --exclude replays --exclude seeded /verif/ "$EV/verif/"
cd "$EV/verif"
for c in "$@"; do
  rm -rf replays
  VERIF_REPO="$WT" timeout 2400 ./check $c --tier ${TIER:-quick} > "$EV/check_$c.log" 2>&1; rc=$?
  echo "check $c rc=$rc: $(grep -h '^VIOLATION' "$EV/check_$c.log" | head -4 | sed "s#$EV/verif/##")"
  for r in replays/*.json; do [ -f "$r" ] && /venv/bin/python - "$r" <<'PY'
import json,sys
d=json.load(open(sys.argv[1]))
keys=[k for k in ("violation","desc","broken","ties_broken","key","what") if k in d]
print("   replay:", {k:(str(d[k])[:300]) for k in keys})
PY
  done
  grep -h "Traceback\|Infra" "$EV/check_$c.log" | head -3
done
